"""Summary interpreter (engine `summ`).

Evaluates the *extracted skeleton* (facts, not the program) of small library functions — straight-line factories,
loop nests with guards, forwarding overloads — over a tiny value domain: small integers, strings (site labels),
sympy expressions (amplitudes stay symbolic), lists (C arrays / std::vector), and records (objects with fields).
It is used to expand the emission structure of the lattice presets for bounded site layouts; nothing of pomerol is
compiled or run.  Any construct outside the understood subset raises AnalysisBroken (no verdict), never a guess.
"""
import copy

import re
import sympy as sp

from .facts import AnalysisBroken, strip_targs

MAX_STEPS = 200000
INT_TYPES = {"int", "unsigned int", "long", "unsigned long", "short", "unsigned short", "long long", "unsigned long long", "size_t", "std::size_t", "char", "unsigned char"}


class Thrown(Exception):
    def __init__(self, tt, where):
        Exception.__init__(self, tt)
        self.tt = tt
        self.where = where


class Stop(Exception):
    """raised by a primitive to end the interpretation at a chosen point"""


class _Return(Exception):
    def __init__(self, v):
        self.v = v


class Obj:
    """record with named fields (qualified member names)"""
    def __init__(self, cls, **f):
        self.cls = cls
        self.f = dict(f)

    def __repr__(self):
        return "<%s %r>" % (self.cls, self.f)


class FObj(Obj):
    """immutable record usable as a map key (compared by value)"""
    def _k(self):
        return (self.cls, tuple(sorted(self.f.items(), key=lambda kv: kv[0])))

    def __eq__(self, o):
        return isinstance(o, FObj) and self._k() == o._k()

    def __ne__(self, o):
        return not self.__eq__(o)

    def __lt__(self, o):
        return self._k() < o._k()

    def __hash__(self):
        return hash(self._k())


def pair(a, b):
    return Obj("pair", first=a, second=b)


class Ptr:
    def __init__(self, lst, off):
        self.lst, self.off = lst, off


class MapIter:
    def __init__(self, m, key):
        self.m, self.key = m, key

    def __eq__(self, o):
        return isinstance(o, MapIter) and self.m is o.m and self.key == o.key

    def __ne__(self, o):
        return not self.__eq__(o)

    def __hash__(self):
        return hash(self.key)


class ListIter:
    def __init__(self, lst, pos):
        self.lst, self.pos = lst, pos

    def __eq__(self, o):
        return isinstance(o, ListIter) and self.lst is o.lst and self.pos == o.pos

    def __ne__(self, o):
        return not self.__eq__(o)

    def __hash__(self):
        return hash(self.pos)


class DMap(dict):
    """std::map whose operator[] default-constructs a missing entry"""
    def __init__(self, default):
        dict.__init__(self)
        self.default = default


STREAM = ("stream",)


def truthy(v):
    if isinstance(v, (bool, int)):
        return bool(v)
    if v is sp.true or v is sp.false:
        return bool(v)
    if isinstance(v, sp.Basic):
        z = sp.expand(v)
        if z == 0:
            return False
        return True      # a symbolic amplitude is generic: non-zero
    if v is None:
        return False
    raise AnalysisBroken("summ: truth value of %r" % (v,))


def num(v):
    if isinstance(v, float):
        return sp.nsimplify(v, rational=True)
    return v


class Interp:
    def __init__(self, db, prims=None):
        self.db = db
        self.prims = prims or {}
        self.steps = 0
        self.top = None          # outermost frame (locals can be inspected after a Stop)
        self.trace = []          # (function, line) of primitive emissions, for reports
        self.stop_at = None      # (function, node id): evaluation of that node ends the interpretation (Stop)
        self.oracle = None       # callable(frame, node, op, a, b) -> bool deciding an ordering of symbolic values (a case split made by the rule)

    # ------------------------------------------------------------------ calls
    def call_fn(self, fn, args, this=None):
        if fn.body is None or fn.body < 0:
            raise AnalysisBroken("summ: %s has no body" % fn.qn)
        if len(args) != len(fn.params):
            raise AnalysisBroken("summ: %s called with %d arguments" % (fn.qn, len(args)))
        env = {p["d"]: a for p, a in zip(fn.params, args)}
        fr = Frame(self, fn, env, this)
        if not hasattr(self, "top") or self.top is None:
            self.top = fr
        try:
            fr.exec(fn.body)
        except _Return as r:
            return r.v
        return None


    def run_ctor(self, ctor, args, obj):
        """interpret a constructor on the (default-initialised) record `obj`: member initialisers, then the body."""
        if ctor.body is None or ctor.body < 0:
            raise AnalysisBroken("summ: constructor %s has no body" % ctor.qn)
        if len(args) != len(ctor.params):
            raise AnalysisBroken("summ: %s called with %d arguments" % (ctor.qn, len(args)))
        fr = Frame(self, ctor, {p["d"]: a for p, a in zip(ctor.params, args)}, obj)
        for ini in ctor.d.get("inits", []):
            if not ini.get("field"):
                raise AnalysisBroken("summ: base-class initialiser in %s" % ctor.qn)
            v = fr.eval(ini["e"])
            obj.f[ctor.rec + "::" + ini["field"]] = list(v) if isinstance(v, list) else v
        try:
            fr.exec(ctor.body)
        except _Return:
            pass
        return obj


class Frame:
    def __init__(self, ip, fn, env, this):
        self.ip, self.fn, self.env, self.this = ip, fn, env, this
        self.nodes = fn.nodes

    def tick(self):
        self.ip.steps += 1
        if self.ip.steps > MAX_STEPS:
            raise AnalysisBroken("summ: step limit exceeded in %s" % self.fn.qn)

    def bad(self, i, what):
        raise AnalysisBroken("summ: %s at %s: %s" % (what, self.fn.loc(i), self.fn.s(i)[:120]))

    # ------------------------------------------------------------------ statements
    def exec(self, i):
        self.tick()
        n = self.nodes[i]
        k = n["k"]
        if k == "block":
            for s in n["body"]:
                self.exec(s)
        elif k == "null":
            pass
        elif k == "decl":
            for v in n["vars"]:
                if v.get("static") and "const" not in (v.get("t") or ""):
                    self.bad(i, "mutable static local")
                val = self.eval(v["init"]) if v.get("init") is not None else None
                am = re.search(r"\[(\d+)\]$", (v.get("t") or "").strip())
                if am and (val is None or not isinstance(val, list)):
                    val = [None] * int(am.group(1))      # local array (elements default-constructed)
                if isinstance(val, list) and not v.get("ref"):
                    val = list(val)
                self.env[v["d"]] = val
        elif k == "if":
            if truthy(self.eval(n["c"])):
                self.exec(n["then"])
            elif n.get("else") is not None:
                self.exec(n["else"])
        elif k == "for":
            if n.get("init") is not None:
                self.exec(n["init"])
            while n.get("c") is None or truthy(self.eval(n["c"])):
                self.tick()
                try:
                    self.exec(n["body"])
                except _Break:
                    break
                except _Continue:
                    pass
                if n.get("inc") is not None:
                    self.eval(n["inc"])
        elif k == "while":
            while truthy(self.eval(n["c"])):
                self.tick()
                try:
                    self.exec(n["body"])
                except _Break:
                    break
                except _Continue:
                    pass
        elif k == "do":
            while True:
                self.tick()
                try:
                    self.exec(n["body"])
                except _Break:
                    break
                except _Continue:
                    pass
                if not truthy(self.eval(n["c"])):
                    break
        elif k == "switch":
            v = self.eval(n["c"])
            if isinstance(v, sp.Basic) and v.is_number:
                v = int(v)
            if not isinstance(v, int):
                self.bad(i, "switch on a value that is not a known integer")
            b = self.nodes[n["body"]]
            stmts = [x for x in (b["body"] if b["k"] == "block" else [n["body"]]) if x is not None]
            # labels: position in the statement list and the statement they wrap (case a: case b: stmt nests)
            start = dflt = None
            for pos_, st in enumerate(stmts):
                j = st
                while self.nodes[j]["k"] in ("case", "default"):
                    lab = self.nodes[j]
                    if lab["k"] == "default":
                        dflt = pos_ if dflt is None else dflt
                    else:
                        cv = self.eval(lab["v"])
                        if isinstance(cv, sp.Basic) and cv.is_number:
                            cv = int(cv)
                        if cv == v and start is None:
                            start = pos_
                    j = lab["sub"]
                    if j is None:
                        break
            if start is None:
                start = dflt
            if start is not None:
                try:
                    for st in stmts[start:]:
                        j = st
                        while j is not None and self.nodes[j]["k"] in ("case", "default"):
                            j = self.nodes[j]["sub"]
                        if j is not None:
                            self.exec(j)
                except _Break:
                    pass
        elif k in ("case", "default"):
            if n.get("sub") is not None:
                self.exec(n["sub"])
        elif k == "break":
            raise _Break()
        elif k == "continue":
            raise _Continue()
        elif k == "return":
            raise _Return(self.eval(n["sub"]) if n.get("sub") is not None else None)
        elif k == "throw":
            raise Thrown(n.get("tt") or "?", self.fn.loc(i))
        else:
            self.eval(i)

    # ------------------------------------------------------------------ lvalues
    def assign(self, i, val):
        n = self.nodes[i]
        k = n["k"]
        if k == "ref" and n["dk"] in ("local", "param"):
            self.env[n["d"]] = val
            return
        if k == "member":
            o = self.eval(n["base"])
            if not isinstance(o, Obj):
                self.bad(i, "field of a non-record")
            o.f[n["q"]] = val
            return
        if k == "call" and n.get("ck") == "op" and n.get("op") == "[]":
            c = self.eval(n["args"][0])
            ix = self.eval(n["args"][1])
            if isinstance(c, list):
                c[ix] = val
                return
            if isinstance(c, dict):
                c[ix] = val
                return
        if k == "index":
            c = self.eval(n["base"])
            ix = self.eval(n["idx"])
            if isinstance(c, list) and isinstance(ix, int) and 0 <= ix < len(c):
                c[ix] = val
                return
        if k == "un" and n["op"] == "*":
            return self.assign(n["sub"], val)
        if k == "cast":
            return self.assign(n["sub"], val)
        self.bad(i, "assignment target not understood")

    # ------------------------------------------------------------------ expressions
    def eval(self, i):
        self.tick()
        n = self.nodes[i]
        if self.ip.stop_at is not None and self.ip.stop_at[1] == i and self.ip.stop_at[0] is self.fn:
            raise Stop()
        k = n["k"]
        if k == "lit":
            if n.get("lk") == "float":
                return sp.Rational(str(n.get("sp") or n["v"]).rstrip("fFlL")) if not isinstance(n["v"], str) else num(n["v"])
            return num(n["v"])
        if k == "ref":
            dk = n["dk"]
            if dk in ("local", "param", "staticlocal"):
                if n["d"] not in self.env:
                    self.bad(i, "unbound variable")
                return self.env[n["d"]]
            if dk == "enumerator":
                return n["v"]
            if dk == "global" and n.get("q") in ("std::cerr", "std::cout", "std::clog"):
                return STREAM
            if dk == "func":
                return ("func", n.get("q"))
            if dk == "global" and ("global " + str(n.get("q"))) in self.ip.prims:
                return self.ip.prims["global " + n["q"]]
            self.bad(i, "reference kind " + dk)
        if k == "this":
            return self.this
        if k == "member":
            o = self.eval(n["base"])
            if isinstance(o, Obj):
                for nm_ in (n.get("q"), strip_targs(n.get("q") or ""), n.get("n")):
                    if nm_ in o.f:
                        return o.f[nm_]
                self.bad(i, "record has no field " + str(n.get("q")))
            if isinstance(o, MapIter) and n.get("n") in ("first", "second"):
                if o.key is None:
                    raise Thrown("dereference of map::end()", self.fn.loc(i))
                return o.key if n["n"] == "first" else o.m[o.key]
            self.bad(i, "member of a non-record")
        if k == "cast":
            v = self.eval(n["sub"])
            t = (n.get("t") or "").replace("const ", "").strip()
            if t in INT_TYPES and isinstance(v, sp.Basic) and v.is_number:
                return int(v)            # truncation toward zero, as the C++ conversion
            if t in INT_TYPES and isinstance(v, float):
                return int(v)
            if t == "bool" and isinstance(v, (int, sp.Basic)) and not isinstance(v, bool):
                return truthy(v)
            return v
        if k == "defarg":
            return self.eval(n["sub"])
        if k == "index":
            c, ix = self.eval(n["base"]), self.eval(n["idx"])
            if isinstance(c, Ptr):
                c, ix = c.lst, c.off + ix
            if not (isinstance(c, list) and isinstance(ix, int) and 0 <= ix < len(c)):
                raise Thrown("out-of-range array subscript", self.fn.loc(i))
            return c[ix]
        if k == "valueinit":
            return 0
        if k == "initlist":
            return [self.eval(x) for x in n["items"]]
        if k == "cond":
            return self.eval(n["a"]) if truthy(self.eval(n["c"])) else self.eval(n["b"])
        if k == "un":
            op = n["op"]
            if op in ("++", "--"):
                v = self.eval(n["sub"])
                nv = v + (1 if op == "++" else -1)
                self.assign(n["sub"], nv)
                return v if n.get("postfix") else nv
            v = self.eval(n["sub"])
            if op == "-":
                return -v
            if op == "+":
                return v
            if op == "!":
                return not truthy(v)
            if op in ("*", "&"):
                return v
            self.bad(i, "unary " + op)
        if k == "bin":
            op = n["op"]
            if op == "=":
                v = self.eval(n["r"])
                self.assign(n["l"], v)
                return v
            if op in ("+=", "-=", "*=", "/="):
                v = self.binop(i, op[0], self.eval(n["l"]), self.eval(n["r"]))
                self.assign(n["l"], v)
                return v
            if op == "&&":
                return truthy(self.eval(n["l"])) and truthy(self.eval(n["r"]))
            if op == "||":
                return truthy(self.eval(n["l"])) or truthy(self.eval(n["r"]))
            if op == ",":
                self.eval(n["l"])
                return self.eval(n["r"])
            return self.binop(i, op, self.eval(n["l"]), self.eval(n["r"]))
        if k == "new":
            prim = self.ip.prims.get("new " + n["at"])
            if prim is None and strip_targs(n["at"]) in ("std::list", "std::vector"):
                return []
            if prim is None:
                self.bad(i, "allocation of " + n["at"])
            init = self.nodes[n["init"]] if n.get("init") is not None else None
            if init is None:
                args = []
            elif init["k"] == "construct":
                args = [self.eval(a) for a in init.get("args", [])]
            else:
                args = [self.eval(n["init"])]      # copy construction from an expression (the copy itself is elided in the skeleton)
            return prim(self, i, args)
        if k == "construct":
            args = n.get("args", [])
            if n.get("copy") and len(args) == 1:
                return self.eval(args[0])
            cn = strip_targs(n.get("cname") or "")
            if cn.startswith("std::basic_string::") and len(args) >= 1:
                return self.eval(args[0])
            if not args and strip_targs(n.get("crec") or "") in ("std::vector", "std::list"):
                return []
            if strip_targs(n.get("crec") or "") == "std::vector" and len(args) in (1, 2, 3) and not n.get("copy"):
                # vector(n), vector(n, value[, allocator])
                a0 = self.eval(args[0])
                if isinstance(a0, int) and not isinstance(a0, bool):
                    fill_ = self.eval(args[1]) if len(args) >= 2 and self.nodes[args[1]]["k"] != "defarg" else (self.eval(args[1]) if len(args) >= 2 and "allocator" not in (self.nodes[args[1]].get("t") or "") else 0)
                    return [fill_] * a0
            if not args and strip_targs(n.get("crec") or "") == "std::basic_string":
                return ""
            if not args and strip_targs(n.get("crec") or "") == "std::map":
                return {}
            if len(args) == 1 and "iterator" in strip_targs(n.get("crec") or "") and "iterator" in (self.nodes[args[0]].get("t") or ""):
                return self.eval(args[0])        # iterator -> const_iterator conversion
            if strip_targs(n.get("crec") or "") == "std::pair" and len(args) == 2:
                return pair(self.eval(args[0]), self.eval(args[1]))
            if strip_targs(n.get("crec") or "") in ("boost::shared_ptr", "std::shared_ptr") and len(args) == 1:
                return self.eval(args[0])
            if (n.get("crec") or "") == "std::complex" and len(args) in (1, 2):
                re_ = self.eval(args[0])
                im_ = self.eval(args[1]) if len(args) == 2 else 0
                return re_ if im_ == 0 else sp.sympify(re_) + sp.I * sp.sympify(im_)
            prim = self.ip.prims.get("construct " + (n.get("crec") or "")) or self.ip.prims.get("construct " + strip_targs(n.get("crec") or ""))
            if prim is not None:
                return prim(self, i, [self.eval(a) for a in args])
            self.bad(i, "construction of " + (n.get("crec") or "?"))
        if k == "call":
            return self.call(i, n)
        self.bad(i, "node kind " + k)

    def _builtin_op(self, i, n, op, args, vals):
        """operator on already evaluated plain values (comparison / arithmetic / subscript)"""
        if op in ("==", "!=", "<", "<=", ">", ">=") and len(vals) == 2:
            if op in ("==", "!="):
                return (vals[0] == vals[1]) if op == "==" else (vals[0] != vals[1])
            return self.binop(i, op, vals[0], vals[1])
        if op in ("+", "-", "*", "/") and len(vals) == 2:
            return self.binop(i, op, vals[0], vals[1])
        if op in ("++", "--") and len(vals) >= 1 and isinstance(vals[0], int):
            nv = vals[0] + (1 if op == "++" else -1)
            self.assign(args[0], nv)
            return vals[0] if len(args) == 2 else nv
        self.bad(i, "user-defined operator%s on plain values" % op)

    def _peek_closure(self, i):
        n = self.nodes[i]
        for _ in range(4):
            if n["k"] == "construct" and n.get("args"):
                n = self.nodes[n["args"][0]]
            elif n["k"] == "cast":
                n = self.nodes[n["sub"]]
            else:
                break
        if n["k"] == "call" and n.get("lambda"):
            fn = self.ip.db.fns.get(n.get("cm"))
            return Closure(fn, self) if fn is not None else None
        if n["k"] == "ref" and n.get("dk") in ("local", "param") and isinstance(self.env.get(n["d"]), Closure):
            return self.env[n["d"]]
        return None

    def binop(self, i, op, a, b):
        if op == "+" and isinstance(a, list) and isinstance(b, int):
            return Ptr(a, b)
        if op == "+" and isinstance(a, Ptr) and isinstance(b, int):
            return Ptr(a.lst, a.off + b)
        try:
            if op == "+":
                return a + b
            if op == "-":
                return a - b
            if op == "*":
                return a * b
            if op == "/":
                tn = (self.nodes[i].get("t") or "").replace("const ", "").strip()
                floating = tn in ("double", "float", "long double") or "complex" in tn
                if isinstance(a, int) and isinstance(b, int) and not floating:
                    if b == 0:
                        self.bad(i, "integer division by zero")
                    return int(a / b)
                return sp.sympify(a) / sp.sympify(b)
            if op == "%":
                return a % b
            if op in ("<<", ">>", "|", "&", "^") and isinstance(a, int) and isinstance(b, int):
                return {"<<": a << b, ">>": a >> b, "|": a | b, "&": a & b, "^": a ^ b}[op]
            if op in ("<", "<=", ">", ">=", "==", "!="):
                if isinstance(a, sp.Basic) or isinstance(b, sp.Basic):
                    d = sp.expand(sp.sympify(a) - sp.sympify(b))
                    if d.is_number:
                        a, b = d, 0
                    elif op in ("==", "!="):
                        return (op == "!=")      # generic symbolic values differ
                    elif self.ip.oracle is not None:
                        return bool(self.ip.oracle(self, i, op, sp.sympify(a), sp.sympify(b)))
                    else:
                        self.bad(i, "ordering of symbolic values")
                r = {"<": a < b, "<=": a <= b, ">": a > b, ">=": a >= b, "==": a == b, "!=": a != b}[op]
                if r in (sp.true, sp.false):
                    r = bool(r)      # (sympy relations between numbers evaluate to sympy booleans)
                if not isinstance(r, bool):
                    self.bad(i, "comparison %s of %r and %r is not decided" % (op, a, b))
                return r
        except TypeError:
            pass
        self.bad(i, "binary %s on %r, %r" % (op, a, b))

    # ------------------------------------------------------------------ calls
    def call(self, i, n):
        if n.get("lambda"):
            fn = self.ip.db.fns.get(n.get("cm"))
            if fn is None or fn.body is None or fn.body < 0:
                self.bad(i, "closure without an analysable body")
            return Closure(fn, self)
        ck = n.get("ck")
        cn = strip_targs(n.get("cname") or "")
        short = cn.split("::")[-1]
        if ck == "op":
            op = n.get("op")
            args = n["args"]
            prim = self.ip.prims.get(cn)
            if prim is not None:
                return prim(self, i, None, [self.eval(a) for a in args])
            # a user-defined operator of the analysed sources (operator== of a key class, ...): interpret its body
            ufn = self.ip.db.callee_fn(n)
            if ufn is not None and ufn.body is not None and ufn.body >= 0 and ufn.rec and not (ufn.file or "").startswith("/usr/"):
                from . import pipeline as _pl
                if (ufn.file or "").startswith(_pl.REPO.rstrip("/") + "/") or "/verif/spec/" in (ufn.file or ""):
                    vals_ = [self.eval(a) for a in args]
                    # (value classes that the rule models by plain numbers -- BlockNumber as an int -- keep the built-in meaning)
                    if vals_ and isinstance(vals_[0], Obj) and not isinstance(vals_[0], FObj):
                        if n.get("ismember"):
                            return self.ip.call_fn(ufn, vals_[1:], this=vals_[0])
                        return self.ip.call_fn(ufn, vals_)
                    return self._builtin_op(i, n, op, args, vals_)
            if op == "()" and len(args) >= 1:
                cl_ = self._peek_closure(args[0])
                if cl_ is None:
                    v0 = None
                    try:
                        v0 = self.eval(args[0])
                    except AnalysisBroken:
                        v0 = None
                    cl_ = v0 if isinstance(v0, Closure) else None
                if cl_ is not None:
                    return cl_(*[self.eval(a) for a in args[1:]])
            if op in ("++", "--") and len(args) >= 1:
                v = self.eval(args[0])
                if isinstance(v, ListIter):
                    nv = ListIter(v.lst, v.pos + (1 if op == "++" else -1))
                    self.assign(args[0], nv)
                    return nv
                self.bad(i, "increment of %r" % (v,))
            if op == "<<":
                l = self.eval(args[0])
                if l is STREAM:
                    return STREAM          # logging: no effect on the summary (operands are not evaluated)
                self.bad(i, "operator<< on a non-stream")
            if op in ("==", "!=") and len(args) == 2:
                a, b = self.eval(args[0]), self.eval(args[1])
                return (a == b) if op == "==" else (a != b)
            if op in ("[]", "()") and len(args) == 2 and (op == "[]" or isinstance(self.eval(args[0]), list)):
                # (Eigen vectors are lists: v(i) is element access)
                c, ix = self.eval(args[0]), self.eval(args[1])
                if isinstance(c, list):
                    if not (isinstance(ix, int) and 0 <= ix < len(c)):
                        raise Thrown("out-of-range element access", self.fn.loc(i))
                    return c[ix]
                if isinstance(c, dict):
                    if ix not in c:
                        if isinstance(c, DMap):
                            c[ix] = c.default()
                        else:
                            raise Thrown("access to a missing map entry (null pointer)", self.fn.loc(i))
                    return c[ix]
                self.bad(i, "operator[] on %r" % (c,))
            if op == "=" and len(args) == 2:
                v = self.eval(args[1])
                self.assign(args[0], v)
                return v
            if op in ("+", "-", "*", "/") and len(args) == 2 and strip_targs(n.get("cname") or "").startswith("std::operator"):
                # arithmetic of std::complex values
                return self.binop(i, op, self.eval(args[0]), self.eval(args[1]))
            if op in ("+=", "-=", "*=", "/=") and len(args) == 2 and strip_targs(n.get("cname") or "").startswith("std::complex"):
                # compound assignment of std::complex values
                v = self.binop(i, op[0], self.eval(args[0]), self.eval(args[1]))
                self.assign(args[0], v)
                return v
            if op in ("+", "-") and len(args) == 1 and strip_targs(n.get("cname") or "").startswith("std::operator"):
                v = self.eval(args[0])
                return -v if op == "-" else v
            if op in ("*", "->") and len(args) == 1:
                v = self.eval(args[0])
                if isinstance(v, ListIter):
                    if not (0 <= v.pos < len(v.lst)):
                        raise Thrown("dereference of an iterator past the end", self.fn.loc(i))
                    return v.lst[v.pos]
                if isinstance(v, MapIter) and op == "*":
                    if v.key is None:
                        raise Thrown("dereference of map::end()", self.fn.loc(i))
                    return pair(v.key, v.m[v.key])
                return v
            self.bad(i, "operator" + str(op))
        if ck == "method":
            obj = self.eval(n["obj"])
            args = n["args"]
            if isinstance(obj, list):
                if short == "assign" and len(args) == 2:
                    b, e = self.eval(args[0]), self.eval(args[1])
                    if isinstance(b, list):
                        b = Ptr(b, 0)
                    if not (isinstance(b, Ptr) and isinstance(e, Ptr) and b.lst is e.lst and 0 <= b.off <= e.off):
                        self.bad(i, "assign(first, last) over different arrays")
                    if e.off > len(b.lst):
                        raise Thrown("read past the end of a local array", self.fn.loc(i))
                    obj[:] = list(b.lst[b.off:e.off])
                    return None
                if short == "size" and not args:
                    return len(obj)
                if short == "resize" and len(args) in (1, 2):
                    nn_ = self.eval(args[0])
                    fill_ = self.eval(args[1]) if len(args) == 2 else 0
                    if not isinstance(nn_, int) or nn_ < 0:
                        self.bad(i, "resize to a non-constant size")
                    del obj[nn_:]
                    obj.extend([fill_] * (nn_ - len(obj)))
                    return None
                if short in ("begin", "cbegin") and not args:
                    return ListIter(obj, 0)
                if short in ("end", "cend") and not args:
                    return ListIter(obj, len(obj))
                if short == "empty" and not args:
                    return len(obj) == 0
                if short in ("push_back", "push") and len(args) == 1:
                    obj.append(self.eval(args[0]))
                    return None
                if short in ("top", "back") and not args:       # (a std::stack is modelled as the list of its elements, top last)
                    if not obj:
                        raise Thrown("top()/back() of an empty sequence", self.fn.loc(i))
                    return obj[-1]
                if short in ("pop", "pop_back") and not args:
                    if not obj:
                        raise Thrown("pop of an empty sequence", self.fn.loc(i))
                    obj.pop()
                    return None
                self.bad(i, "vector method " + short)
            if isinstance(obj, dict):
                if short == "find" and len(args) == 1:
                    key = self.eval(args[0])
                    return MapIter(obj, key if key in obj else None)
                if short == "end" and not args:
                    return MapIter(obj, None)
                if short == "count" and len(args) == 1:
                    return 1 if self.eval(args[0]) in obj else 0
                if short == "at" and len(args) == 1:
                    key = self.eval(args[0])
                    if key not in obj:
                        raise Thrown("std::out_of_range (map::at)", self.fn.loc(i))
                    return obj[key]
                if short in ("insert", "emplace") and len(args) == 1:
                    pr = self.eval(args[0])
                    if not (isinstance(pr, Obj) and pr.cls == "pair"):
                        self.bad(i, "map::insert of a non-pair")
                    kk = pr.f["first"]
                    if isinstance(kk, list):
                        kk = tuple(kk)          # a vector used as a map key
                    fresh = kk not in obj
                    if fresh:
                        obj[kk] = pr.f["second"]
                    return pair(MapIter(obj, kk), fresh)
                if short == "size" and not args:
                    return len(obj)
                if short == "clear" and not args:
                    obj.clear()
                    return None
                self.bad(i, "map method " + short)
            if short == "operator bool" and isinstance(obj, (int, bool)) and not args:
                return bool(obj)
            prim = self.ip.prims.get(cn)
            if prim is not None:
                return prim(self, i, obj, [self.eval(a) for a in args])
            fn = self.ip.db.callee_fn(n)
            if fn is None or fn.body is None or fn.body < 0:
                self.bad(i, "method %s has no analysable body" % cn)
            return self.ip.call_fn(fn, [self.eval(a) for a in args], this=obj)
        if ck == "func":
            args = n["args"]
            if cn in ("std::abs", "abs", "std::fabs", "fabs") and len(args) == 1:
                v = self.eval(args[0])
                return abs(v) if isinstance(v, (int, float)) else sp.Abs(v)
            if cn in ("std::ceil", "ceil", "std::floor", "floor") and len(args) == 1:
                v = sp.sympify(self.eval(args[0]))
                if not v.is_number:
                    self.bad(i, "ceil/floor of a symbolic value")
                return sp.ceiling(v) if cn.endswith("ceil") else sp.floor(v)
            if cn in ("std::max", "std::min") and len(args) == 2:
                a, b = self.eval(args[0]), self.eval(args[1])
                if not (isinstance(a, (int, float, sp.Rational)) and isinstance(b, (int, float, sp.Rational))) or isinstance(a, bool):
                    self.bad(i, "max/min of symbolic values")
                return max(a, b) if cn.endswith("max") else min(a, b)
            if cn == "std::accumulate" and len(args) in (3, 4):
                b, e, acc = self.eval(args[0]), self.eval(args[1]), self.eval(args[2])
                if len(args) == 4 and isinstance(self._peek_closure(args[3]), Closure):
                    fcl = self._peek_closure(args[3])
                    if not (isinstance(b, ListIter) and isinstance(e, ListIter) and b.lst is e.lst and 0 <= b.pos <= e.pos <= len(b.lst)):
                        self.bad(i, "accumulate over something else than one sequence")
                    for x in b.lst[b.pos:e.pos]:
                        acc = fcl(acc, x)
                    return acc
                if len(args) == 4:
                    fo = self.nodes[args[3]]
                    while fo["k"] in ("cast", "defarg") or (fo["k"] == "construct" and fo.get("copy") and len(fo.get("args", [])) == 1):
                        fo = self.nodes[fo["sub"] if "sub" in fo else fo["args"][0]]
                    if not (fo["k"] in ("construct", "valueinit") and strip_targs(fo.get("crec") or fo.get("t") or "").replace("const ", "").strip() == "std::plus"):
                        self.bad(i, "accumulate with a callable other than std::plus")
                if not (isinstance(b, ListIter) and isinstance(e, ListIter) and b.lst is e.lst and 0 <= b.pos <= e.pos <= len(b.lst)):
                    self.bad(i, "accumulate over something else than one sequence")
                for x in b.lst[b.pos:e.pos]:
                    acc = acc + (int(x) if isinstance(x, bool) else x)
                return acc
            if cn == "std::iota" and len(args) == 3:
                b, e, v0 = self.eval(args[0]), self.eval(args[1]), self.eval(args[2])
                if not (isinstance(b, ListIter) and isinstance(e, ListIter) and b.lst is e.lst and 0 <= b.pos <= e.pos <= len(b.lst)):
                    self.bad(i, "iota over something else than one sequence")
                for k_ in range(b.pos, e.pos):
                    b.lst[k_] = v0 + (k_ - b.pos)
                return None
            if cn == "std::count" and len(args) == 3:
                b, e, v = self.eval(args[0]), self.eval(args[1]), self.eval(args[2])
                if not (isinstance(b, ListIter) and isinstance(e, ListIter) and b.lst is e.lst and 0 <= b.pos <= e.pos <= len(b.lst)):
                    self.bad(i, "count over something else than one sequence")
                return sum(1 for x in b.lst[b.pos:e.pos] if x == v)
            if cn in ("std::any_of", "std::all_of", "std::none_of", "std::count_if", "std::for_each", "std::find_if") and len(args) == 3:
                b, e, fcl = self.eval(args[0]), self.eval(args[1]), self.eval(args[2])
                if isinstance(b, list):
                    b = ListIter(b, 0)
                if isinstance(b, Ptr):
                    b = ListIter(b.lst, b.off)
                if isinstance(e, Ptr):
                    e = ListIter(e.lst, e.off)
                if not (isinstance(b, ListIter) and isinstance(e, ListIter) and b.lst is e.lst and 0 <= b.pos <= e.pos <= len(b.lst) and isinstance(fcl, Closure)):
                    self.bad(i, "%s over something else than one sequence with a closure" % cn)
                seq = b.lst[b.pos:e.pos]
                if cn == "std::any_of":
                    return any(truthy(fcl(x)) for x in seq)
                if cn == "std::all_of":
                    return all(truthy(fcl(x)) for x in seq)
                if cn == "std::none_of":
                    return not any(truthy(fcl(x)) for x in seq)
                if cn == "std::count_if":
                    return sum(1 for x in seq if truthy(fcl(x)))
                if cn == "std::find_if":
                    for k_, x in enumerate(seq):
                        if truthy(fcl(x)):
                            return ListIter(b.lst, b.pos + k_)
                    return ListIter(b.lst, e.pos)
                for x in seq:
                    fcl(x)
                return fcl
            if cn in ("boost::tuples::make_tuple", "boost::make_tuple", "std::make_tuple"):
                return tuple(self.eval(a) for a in args)
            if cn == "std::make_pair" and len(args) == 2:
                return pair(self.eval(args[0]), self.eval(args[1]))
            if cn in ("std::conj", "conj") and len(args) == 1:
                v = self.eval(args[0])
                return sp.conjugate(sp.sympify(v))
            if cn in ("std::real", "real") and len(args) == 1:
                return sp.re(sp.sympify(self.eval(args[0])))
            prim = self.ip.prims.get(cn)
            if prim is not None:
                return prim(self, i, None, [self.eval(a) for a in args])
            fn = self.ip.db.callee_fn(n)
            if fn is None or fn.body is None or fn.body < 0:
                self.bad(i, "function %s has no analysable body" % cn)
            return self.ip.call_fn(fn, [self.eval(a) for a in args])
        self.bad(i, "call kind %s" % ck)


class Closure:
    """a lambda: its call operator and the frame it was created in (captured variables keep the declaration ids of that
    frame, so the body is run on the same environment plus its own parameters)"""
    def __init__(self, fn, frame):
        self.fn, self.frame = fn, frame

    def __call__(self, *args):
        fn = self.fn
        if len(args) != len(fn.params):
            raise AnalysisBroken("summ: closure called with %d arguments" % len(args))
        env = self.frame.env
        saved = {p["d"]: env.get(p["d"], _MISSING) for p in fn.params}
        for p, a in zip(fn.params, args):
            env[p["d"]] = a
        fr = Frame(self.frame.ip, fn, env, self.frame.this)
        try:
            fr.exec(fn.body)
            r = None
        except _Return as r_:
            r = r_.v
        finally:
            for d_, v_ in saved.items():
                if v_ is _MISSING:
                    env.pop(d_, None)
                else:
                    env[d_] = v_
        return r


_MISSING = object()


class _Break(Exception):
    pass


class _Continue(Exception):
    pass


def clone(v):
    return copy.deepcopy(v)
