"""Checker self-test: every mutants/CNN/*.patch must be reported (exit 1, VIOLATION) by ./verify CNN,
every mutants/CNN/equiv/*.patch and every behaviour-preserving rewrite must leave it silent (exit 0).
Seeded changes under seeded/<id>/ (patch.diff + meta.json naming the property) are included as kills.

  python3-vt -m pv.selftest [CNN ...] [--only name-substring] [--keep]

Works on a scratch copy of the repository sources outside /repo and /verif; removed afterwards."""
import glob
import json
import os
import shutil
import subprocess
import sys
import time

VERIF = os.path.dirname(os.path.dirname(os.path.abspath(__file__)))
SRC = os.environ.get("POMVERIF_REPO", "/repo").rstrip("/")


def sh(cmd, **kw):
    return subprocess.run(cmd, stdout=subprocess.PIPE, stderr=subprocess.STDOUT, text=True, **kw)


def main(argv):
    if "--jobs" in argv:
        # run N shards of the case list in parallel, each on its own scratch copy; concatenate their reports
        n = int(argv[argv.index("--jobs") + 1])
        rest = [a for k, a in enumerate(argv) if a != "--jobs" and not (k > 0 and argv[k - 1] == "--jobs")]
        outdir = os.path.join(os.environ.get("TMPDIR", "/var/tmp"), "pomverif-shards.%d" % os.getpid())
        os.makedirs(outdir, exist_ok=True)
        procs = []
        for k in range(n):
            fh = open(os.path.join(outdir, "%d.log" % k), "w")
            procs.append((subprocess.Popen([sys.executable, "-m", "pv.selftest"] + rest + ["--shard", "%d/%d" % (k, n)], stdout=fh, stderr=subprocess.STDOUT, cwd=VERIF), fh))
        rc = 0
        for p_, fh in procs:
            rc = max(rc, p_.wait())
            fh.close()
        tot = good = 0
        res = []
        for k in range(n):
            for line in open(os.path.join(outdir, "%d.log" % k)):
                if line.startswith("selftest:"):
                    m_ = [int(x) for x in line.replace(",", " ").split() if x.isdigit()]
                    tot += m_[0]
                    good += m_[1]
                else:
                    sys.stdout.write(line)
            rj = os.path.join(outdir, "%d.json" % k)
            if os.path.exists(rj):
                res.extend(json.load(open(rj)))
        json.dump(res, open(os.path.join(VERIF, "evidence", "selftest.json"), "w"), indent=1)
        shutil.rmtree(outdir, ignore_errors=True)
        print("selftest: %d cases, %d as expected" % (tot, good))
        return rc
    shard = None
    if "--shard" in argv:
        a_, b_ = argv[argv.index("--shard") + 1].split("/")
        shard = (int(a_), int(b_))
    props = [a for a in argv if a.startswith("C") and a[1:].isdigit()]
    only = argv[argv.index("--only") + 1] if "--only" in argv else None
    scratch = os.path.join(os.environ.get("TMPDIR", "/var/tmp"), "pomverif-mut.%d" % os.getpid())
    repo = os.path.join(scratch, "repo")
    shutil.rmtree(scratch, ignore_errors=True)
    os.makedirs(repo)
    try:
        sh(["rsync", "-a", "--exclude", "_build", "--exclude", ".git", SRC + "/", repo + "/"])
        env = dict(os.environ, POMVERIF_REPO=repo, POMVERIF_CACHE=os.path.join(scratch, "cache"))
        # the checker itself is run from a snapshot taken now, so that edits made to /verif while a long self-test
        # is running do not leak into it
        snap = os.path.join(scratch, "verif")
        os.makedirs(snap)
        for d in ("verify", "checks", "pv", "tool", "spec", "known_findings.txt"):
            sh(["rsync", "-a", "--exclude", "__pycache__", os.path.join(VERIF, d), snap + "/"])
        cases = []
        for p in sorted(glob.glob(os.path.join(VERIF, "mutants", "C*", "*.patch"))):
            cases.append((os.path.basename(os.path.dirname(p)), p, "kill"))
        for p in sorted(glob.glob(os.path.join(VERIF, "mutants", "C*", "equiv", "*.patch"))):
            # u-*.patch: behaviour-preserving rewrites into idioms the engines do not model (std algorithms with lambdas):
            # the check may answer "undecided" (exit 2) but must not raise an alarm
            cases.append((os.path.basename(os.path.dirname(os.path.dirname(p))), p, "noalarm" if os.path.basename(p).startswith("u-") else "silent"))
        # behaviour-preserving refactorings written by independent agents: tried against EVERY check, none may raise an alarm
        allchecks = sorted(os.path.basename(c)[:-3].upper() for c in glob.glob(os.path.join(VERIF, "checks", "c[0-9]*.py")))
        for p in sorted(glob.glob(os.path.join(VERIF, "mutants", "ALL", "noalarm", "*.patch"))):
            for pr in allchecks:
                cases.append((pr, p, "noalarm"))
        for m in sorted(glob.glob(os.path.join(VERIF, "seeded", "*", "meta.json"))):
            meta = json.load(open(m))
            pd = os.path.join(os.path.dirname(m), "patch.diff")
            # a seeded change is tried against the check(s) recorded as catching it (possibly the check of another
            # property); a recorded miss is tried against its own property's check and must not raise an alarm
            runs = sorted({c.split("-")[0] for c in meta.get("caught_by", [])}) or [meta["property"]]
            for pr in runs:
                cases.append((pr, pd, meta.get("expect", "kill")))
        if "ALL" in argv:
            cases = [c for c in cases if os.sep + "ALL" + os.sep in c[1]]
        elif props:
            cases = [c for c in cases if c[0] in props and os.sep + "ALL" + os.sep not in c[1]]
        if only:
            cases = [c for c in cases if only in c[1]]
        if shard is not None:
            # whole patches stay in one shard (consecutive runs of one patch reuse the extracted facts)
            names = sorted({c[1] for c in cases})
            mine = {nm for k, nm in enumerate(names) if k % shard[1] == shard[0]}
            cases = [c for c in cases if c[1] in mine]
        res = []
        ok = True
        for prop, patch, expect in cases:
            t0 = time.time()
            if not os.path.exists(os.path.join(VERIF, "checks", prop.lower() + ".py")):
                print("%-7s %-60s SKIP (no check for %s)" % (expect, os.path.relpath(patch, VERIF), prop))
                continue
            a = sh(["patch", "-p1", "-s", "-i", patch], cwd=repo)
            if a.returncode != 0:
                print("%-7s %-60s PATCH-DOES-NOT-APPLY %s" % (expect, os.path.relpath(patch, VERIF), a.stdout[:200]))
                sh(["rsync", "-a", "--delete", "--exclude", "_build", "--exclude", ".git", SRC + "/", repo + "/"])
                ok = False
                continue
            r = sh([os.path.join(snap, "verify"), prop, "--tier", "quick", "--no-evidence"], env=env, cwd=snap)
            sh(["patch", "-p1", "-s", "-R", "-i", patch], cwd=repo)
            rules = sorted(set(l.split()[1] for l in r.stdout.splitlines() if l.startswith("  violation ")))
            good = (r.returncode == 1) if expect == "kill" else (r.returncode != 1) if expect in ("miss", "noalarm") else (r.returncode == 0)
            verdict = {0: "silent", 1: "VIOLATION", 2: "analysis-broken"}.get(r.returncode, "rc=%d" % r.returncode)
            if r.returncode == 1 and "VIOLATION property=" not in r.stdout:
                verdict = "CHECKER-CRASHED"       # a Python error in the checker is not a verdict
                good = False
            print("%-7s %-60s %-16s %-30s %s %.1fs" % (expect, os.path.relpath(patch, VERIF) + ("@" + prop if expect == "noalarm" else ""), verdict, ",".join(rules), "ok" if good else "MISSED" if expect == "kill" else "FALSE-ALARM", time.time() - t0))
            if not good:
                ok = False
                if "--verbose" in argv:
                    print(r.stdout[-3000:])
            res.append({"property": prop, "patch": os.path.relpath(patch, VERIF), "expect": expect, "verdict": verdict, "rules": rules, "ok": good})
        if shard is not None:
            json.dump(res, open(os.path.join(os.environ.get("TMPDIR", "/var/tmp"), "pomverif-shards.%d" % os.getppid(), "%d.json" % shard[0]), "w"))
        else:
            json.dump(res, open(os.path.join(VERIF, "evidence", "selftest.json"), "w"), indent=1)
        print("selftest: %d cases, %d as expected" % (len(res), sum(1 for x in res if x["ok"])))
        return 0 if ok else 1
    finally:
        if "--keep" not in argv:
            shutil.rmtree(scratch, ignore_errors=True)


if __name__ == "__main__":
    sys.exit(main(sys.argv[1:]))
