"""Build the fact database for the current working tree of the repository.

  facts_dir(tier) -> path of a cache directory containing real/*.json, complex/*.json

The cache key is a hash over the repository's sources and the extractor binary, so a
check always reflects the *current* tree; nothing is kept under /tmp.
"""
import fcntl
import hashlib
import json
import os
import shutil
import subprocess
import sys
import time
from concurrent.futures import ThreadPoolExecutor

VERIF = os.path.dirname(os.path.dirname(os.path.abspath(__file__)))
REPO = os.environ.get("POMVERIF_REPO", "/repo").rstrip("/")
TOOL = os.path.join(VERIF, "tool", "pomfacts")
CACHE = os.environ.get("POMVERIF_CACHE", os.path.join(VERIF, ".cache"))
SCAN_DIRS = ("src", "include", "test", "tutorial", "prog", "cmake")
SCAN_FILES = ("CMakeLists.txt",)


def ensure_tool():
    src = os.path.join(VERIF, "tool", "pomfacts.cc")
    if os.path.exists(TOOL) and os.path.getmtime(TOOL) >= os.path.getmtime(src):
        return
    subprocess.check_call(["sh", os.path.join(VERIF, "tool", "build.sh")])


def tree_hash():
    h = hashlib.sha256()
    for d in SCAN_DIRS:
        root = os.path.join(REPO, d)
        for dp, dn, fn in sorted(os.walk(root)):
            dn.sort()
            for f in sorted(fn):
                p = os.path.join(dp, f)
                h.update(os.path.relpath(p, REPO).encode())
                try:
                    with open(p, "rb") as fh:
                        h.update(hashlib.sha256(fh.read()).digest())
                except OSError:
                    pass
    for f in SCAN_FILES:
        p = os.path.join(REPO, f)
        if os.path.exists(p):
            with open(p, "rb") as fh:
                h.update(fh.read())
    with open(TOOL, "rb") as fh:
        h.update(hashlib.sha256(fh.read()).digest())
    ex = os.path.join(VERIF, "spec", "instantiate.cc")
    if os.path.exists(ex):
        with open(ex, "rb") as fh:
            h.update(fh.read())
    h.update(REPO.encode())
    return h.hexdigest()[:24]


def _prune_cache(keep):
    """keep the cache bounded: tree indexes are tiny; per-TU fact files are capped at ~1.2 GB (oldest first)."""
    try:
        ents = [e for e in os.listdir(CACHE) if e not in (keep, "tu") and not e.endswith(".lock")]
    except OSError:
        return
    ents = sorted(ents, key=lambda e: os.path.getmtime(os.path.join(CACHE, e)))
    while len(ents) > 40:
        e = ents.pop(0)
        shutil.rmtree(os.path.join(CACHE, e), ignore_errors=True)
        try:
            os.unlink(os.path.join(CACHE, e + ".lock"))
        except OSError:
            pass
    tudir = os.path.join(CACHE, "tu")
    try:
        fs = [os.path.join(tudir, f) for f in os.listdir(tudir)]
    except OSError:
        return
    keepset = set()
    try:
        idx = json.load(open(os.path.join(CACHE, keep, "done.json")))["index"]
        for c in idx.values():
            keepset.update(c.values())
    except Exception:
        pass
    fs = sorted(fs, key=os.path.getmtime)
    total = sum(os.path.getsize(f) for f in fs)
    for f in fs:
        if total < 1200 * 1024 * 1024:
            break
        if f in keepset:
            continue
        total -= os.path.getsize(f)
        os.unlink(f)


def _hdr_hash():
    h = hashlib.sha256()
    for d in ("include", "cmake"):
        for dp, dn, fn in sorted(os.walk(os.path.join(REPO, d))):
            dn.sort()
            for f in sorted(fn):
                p = os.path.join(dp, f)
                h.update(os.path.relpath(p, REPO).encode())
                with open(p, "rb") as fh:
                    h.update(hashlib.sha256(fh.read()).digest())
    with open(os.path.join(REPO, "CMakeLists.txt"), "rb") as fh:
        h.update(fh.read())
    with open(TOOL, "rb") as fh:
        h.update(hashlib.sha256(fh.read()).digest())
    h.update(REPO.encode())
    return h.hexdigest()


def _tu_key(hh, tu, cfgname, cmd):
    h = hashlib.sha256()
    h.update(hh.encode())
    h.update(cfgname.encode())
    h.update(tu.encode())
    # the scratch build directory name differs from run to run; it only carries generated headers
    import re as _re
    h.update(_re.sub(r"pomverif\.\d+", "pomverif", cmd).encode())
    with open(tu, "rb") as fh:
        h.update(fh.read())
    return h.hexdigest()[:32]


def _run_one(args):
    tu, cfgname, dbdir, outfile = args
    t0 = time.time()
    if os.path.exists(outfile):
        return tu, cfgname, 0, "", 0.0
    tmp = outfile + ".tmp%d" % os.getpid()
    p = subprocess.run([TOOL, "-p", dbdir, "--root", REPO + "/", "--out", tmp, tu],
                       stdout=subprocess.PIPE, stderr=subprocess.PIPE, text=True)
    if p.returncode == 0:
        os.replace(tmp, outfile)
    elif os.path.exists(tmp):
        os.unlink(tmp)
    return tu, cfgname, p.returncode, p.stderr[-2000:], time.time() - t0


def facts_dir(tier="quick", log=None):
    """Return (dir, info). dir contains <config>/<TU>.json for config in real, complex."""
    log = log or (lambda *a: None)
    ensure_tool()
    key = tree_hash()
    os.makedirs(CACHE, exist_ok=True)
    out = os.path.join(CACHE, key)
    lock = open(os.path.join(CACHE, key + ".lock"), "w")
    fcntl.flock(lock, fcntl.LOCK_EX)
    try:
        marker = os.path.join(out, "done.json")
        # test and tutorial units are always extracted: several header templates (IndexContainer4::operator(),
        # ElementWithPermFreq::operator(), IndexContainer2) are only instantiated there
        want_tests = True
        if os.path.exists(marker):
            info = json.load(open(marker))
            if (info.get("tests") or not want_tests) and all(os.path.exists(p) for c in info["index"].values() for p in c.values()):
                info["cached"] = True
                os.utime(out)
                return out, info
        t0 = time.time()
        scratch_root = os.environ.get("TMPDIR", "/var/tmp")
        scratch = os.path.join(scratch_root, "pomverif.%d" % os.getpid())
        shutil.rmtree(scratch, ignore_errors=True)
        os.makedirs(scratch)
        try:
            bdir = os.path.join(scratch, "b")
            p = subprocess.run(["cmake", "-G", "Ninja", "-S", REPO, "-B", bdir, "-DCMAKE_EXPORT_COMPILE_COMMANDS=ON"],
                               stdout=subprocess.PIPE, stderr=subprocess.STDOUT, text=True)
            if p.returncode != 0:
                raise RuntimeError("cmake configure failed:\n" + p.stdout[-3000:])
            cc = json.load(open(os.path.join(bdir, "compile_commands.json")))
            seen = set()
            entries = []
            for e in cc:
                if e["file"] in seen:
                    continue
                seen.add(e["file"])
                entries.append(e)
            lib = [e for e in entries if "/src/" in e["file"]]
            tests = [e for e in entries if "/src/" not in e["file"]]
            use = lib + (tests if want_tests else [])
            # explicit instantiations of header templates the default build never instantiates completely
            extra_src = os.path.join(VERIF, "spec", "instantiate.cc")
            if os.path.exists(extra_src) and lib:
                e0 = dict(lib[0])
                src0 = e0["file"]
                cmd = e0["command"].replace(" -c " + src0, " -c " + extra_src)
                import re as _re2
                cmd = _re2.sub(r" -o \S+", " -o instantiate.o", cmd)
                e0["command"] = cmd
                e0["file"] = extra_src
                use = use + [e0]
            jobs = []
            hh = _hdr_hash()
            tudir = os.path.join(CACHE, "tu")
            os.makedirs(tudir, exist_ok=True)
            index = {}
            for cfgname, extra in (("real", ""), ("complex", " -DPOMEROL_COMPLEX_MATRIX_ELEMENTS")):
                dbdir = os.path.join(scratch, "db_" + cfgname)
                os.makedirs(dbdir)
                db = []
                for e in use:
                    e2 = dict(e)
                    cmd = e["command"]
                    # keep the real flags; add the configuration macro; -std is explicit in the repo's flags
                    cmd = cmd.replace(" -o ", extra + " -o ", 1)
                    e2["command"] = cmd
                    db.append(e2)
                json.dump(db, open(os.path.join(dbdir, "compile_commands.json"), "w"))
                os.makedirs(out, exist_ok=True)
                index[cfgname] = {}
                for e, e2 in zip(use, db):
                    rel = os.path.relpath(e["file"], REPO) if e["file"].startswith(REPO + "/") else "src/__verif__/" + os.path.basename(e["file"])
                    tf = os.path.join(tudir, _tu_key(hh, e["file"], cfgname, e2["command"]) + ".json")
                    index[cfgname][rel] = tf
                    jobs.append((e["file"], cfgname, dbdir, tf))
            # biggest TUs first
            jobs.sort(key=lambda j: -os.path.getsize(j[0]))
            failed = []
            nrun = 0
            with ThreadPoolExecutor(max_workers=min(16, os.cpu_count() or 4)) as ex:
                for tu, cfgname, rc, err, dt in ex.map(_run_one, jobs):
                    if rc != 0:
                        failed.append((tu, cfgname, err))
                    if dt > 0:
                        nrun += 1
            complex_failed = [(tu, err[-600:]) for tu, cfgname, err in failed if cfgname == "complex"]
            failed = [x for x in failed if x[1] != "complex"]
            if failed:
                shutil.rmtree(out, ignore_errors=True)
                raise RuntimeError("extraction failed for %d units: %s" % (len(failed), failed[:2]))
            if complex_failed:
                # the pinned (real) configuration parses, the complex-matrix-element configuration does not:
                # analyse what the pinned build covers and report the other configuration as not analysable
                index.pop("complex", None)
            info = {"key": key, "repo": REPO, "lib_tus": len(lib), "test_tus": len(tests) if want_tests else 0,
                    "tests": want_tests, "configs": sorted(index.keys(), reverse=True), "complex_failed": [c[0] for c in complex_failed],
                    "complex_error": complex_failed[0][1] if complex_failed else "", "extract_s": round(time.time() - t0, 1),
                    "cached": False, "extracted_units": nrun, "index": index, "flags": lib[0]["command"].split(" -o ")[0] if lib else ""}
            json.dump(info, open(marker, "w"))
            _prune_cache(key)
            return out, info
        finally:
            shutil.rmtree(scratch, ignore_errors=True)
    finally:
        fcntl.flock(lock, fcntl.LOCK_UN)
        lock.close()


if __name__ == "__main__":
    d, info = facts_dir(sys.argv[1] if len(sys.argv) > 1 else "quick")
    print(d, json.dumps(info))
