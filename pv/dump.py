"""debug: python3-vt -m pv.dump <config> <qualified-name-regex> [cfg]"""
import sys
from . import pipeline
from .facts import load_db
from .expr import Ctx, guard_facts

def main():
    cfgname, rx = sys.argv[1], sys.argv[2]
    d, info = pipeline.facts_dir("quick")
    db = load_db(d, cfgname)
    for f in db.fns_matching(rx):
        print("=====", f.sig, f.loc(), "const" if f.d.get("const") else "")
        if "cfg" in sys.argv[3:]:
            cfg = f.cfg
            ctx = Ctx(f, db)
            at = guard_facts(f, ctx) if "facts" in sys.argv[3:] else None
            for bid in sorted(cfg.blocks, reverse=True):
                b = cfg.blocks[bid]
                print(" B%d preds=%s succs=%s tk=%s tc=%s" % (bid, b.preds, b.succs, b.tk, f.s(b.tc) if b.tc is not None else None))
                for i, e in enumerate(b.elems):
                    nid = e[2] if isinstance(e, tuple) else e
                    print("    [%d.%d] n%d %s: %s" % (bid, i, nid, f.nodes[nid]["k"], f.s(nid)[:150]))
                    if at is not None and "allfacts" in sys.argv[3:]:
                        print("         facts:", sorted(map(str, at.get((bid, i), []))))
                if at is not None:
                    print("    end facts:", sorted(map(str, at.get((bid, len(b.elems)), []))))
        else:
            def show(i, ind):
                n = f.nodes[i]
                k = n["k"]
                if k == "block":
                    for c in n["body"]:
                        if c is not None: show(c, ind)
                elif k == "if":
                    print("%sif (%s)  [n%d]" % (ind, f.s(n["c"]), i)); show(n["then"], ind + "    ")
                    if n.get("else") is not None:
                        print(ind + "else"); show(n["else"], ind + "    ")
                elif k == "for":
                    print("%sfor (%s; %s; %s) [n%d]" % (ind, f.s(n.get("init")), f.s(n.get("c")), f.s(n.get("inc")), i))
                    if n.get("body") is not None: show(n["body"], ind + "    ")
                elif k in ("while",):
                    print("%swhile (%s) [n%d]" % (ind, f.s(n["c"]), i)); show(n["body"], ind + "    ")
                elif k == "do":
                    print("%sdo [n%d]" % (ind, i)); show(n["body"], ind + "    "); print("%swhile (%s)" % (ind, f.s(n["c"])))
                elif k == "omp":
                    print("%s#pragma %s [n%d]" % (ind, n["dir"], i))
                    if n.get("body") is not None: show(n["body"], ind + "    ")
                else:
                    print("%s%s;  [n%d %s]" % (ind, f.s(i), i, k))
            for ini in f.d.get("inits", []):
                print("  init %s <- %s" % (ini.get("field") or ini.get("base"), f.s(ini["e"])))
            if f.body is not None and f.body >= 0:
                show(f.body, "  ")

main()
