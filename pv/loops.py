"""Structural description of for-loops (index loops and iterator loops over a container)."""
from .expr import Ctx


def loop_shape(fn, ctx, L):
    """Describe for-statement L.  Returns dict with
       kind   'index' (v = s; v < B; ++v) | 'iter' (it = m.begin(); it != m.end(); ++it) | 'other'
       var    ('var', d, name)
       start  key   (index loops)
       bound  key   (index loops: exclusive upper bound)   |  container key (iter loops)
       rel    '<' / '<=' (index loops)
       exits  [(node id, 'break'|'continue'|'return')] that belong to this loop
       body   node id
    """
    n = fn.nodes[L]
    if n["k"] == "while":
        return _while_shape(fn, ctx, L)
    if n["k"] == "forrange":
        allx = loop_exits(fn, L)
        v = n.get("var") or {}
        return {"kind": "range", "node": L, "body": n.get("body"), "var": ("var", v.get("d"), v.get("n")), "bound": ctx.key(n["range"]),
                "exits": [e for e in allx if e[1] != "continue"], "continues": [e for e in allx if e[1] == "continue"]}
    allx = loop_exits(fn, L)
    # a `continue` ends one iteration, it does not truncate the loop: it is a per-item filter, equivalent to wrapping the
    # rest of the body in the negated condition (branch facts at a statement already include that condition).
    out = {"kind": "other", "node": L, "body": n.get("body"), "var": None, "exits": [e for e in allx if e[1] != "continue"],
           "continues": [e for e in allx if e[1] == "continue"]}
    ini = fn.nodes[n["init"]] if n.get("init") is not None else None
    v = None
    if ini and ini["k"] == "decl" and len(ini["vars"]) >= 1 and all(x.get("init") is not None for x in ini["vars"]):
        v = ini["vars"][0]
        if len(ini["vars"]) > 1 and n.get("inc") is not None:
            # for (it = c.begin(), last = c.end(); ...; ++it): the loop variable is the one the increment advances
            inc_ = fn.nodes[n["inc"]]
            tgt_ = inc_.get("sub") if inc_["k"] == "un" else (inc_["args"][0] if inc_["k"] == "call" and inc_.get("args") else None)
            if tgt_ is not None and fn.nodes[tgt_]["k"] == "ref":
                for x in ini["vars"]:
                    if x["d"] == fn.nodes[tgt_]["d"]:
                        v = x
        startnode = v["init"]
    elif ini and ((ini["k"] == "bin" and ini["op"] == "=") or (ini["k"] == "call" and ini.get("ck") == "op" and ini.get("op") == "=" and len(ini["args"]) == 2)):
        # the counter / iterator was declared before the loop and is set in the for-init:  for (it = c.begin(); ...)
        tgt = ini["l"] if ini["k"] == "bin" else ini["args"][0]
        tn = fn.nodes[tgt]
        if tn["k"] == "ref" and tn.get("dk") == "local":
            v = {"d": tn["d"], "n": tn["n"]}
            startnode = ini["r"] if ini["k"] == "bin" else ini["args"][1]
            out["assigned_init"] = n["init"]
    if v is None:
        return out
    var = ("var", v["d"], v["n"])
    out["var"] = var
    out["start"] = _unconv(ctx.key(startnode))
    # increment: ++v, v++, v += 1
    stepok = False
    incparts = []
    if n.get("inc") is not None:
        todo = [n["inc"]]
        while todo:
            x = todo.pop()
            xn = fn.nodes[x]
            if xn["k"] == "bin" and xn["op"] == ",":
                todo.extend([xn["l"], xn["r"]])
            elif xn["k"] == "call" and xn.get("ck") == "op" and xn.get("op") == "," and len(xn["args"]) == 2:
                todo.extend(xn["args"])
            else:
                incparts.append(x)
    for x in incparts:
        inc = fn.nodes[x]
        if inc["k"] == "un" and inc["op"] == "++" and ctx.key(inc["sub"], inline=False)[:2] == var[:2]:
            stepok = True
        if inc["k"] == "call" and inc.get("ck") == "op" and inc.get("op") == "++" and ctx.key(inc["args"][0], inline=False)[:2] == var[:2]:
            stepok = True
        if inc["k"] == "bin" and inc["op"] == "+=" and ctx.key(inc["l"], inline=False)[:2] == var[:2] and ctx.key(inc["r"]) == ("lit", 1):
            stepok = True
    # variable modified in the body?
    muts = [j for j in ctx.mut.get(v["d"], []) if j not in incparts and j != n.get("inc")]
    if out.get("assigned_init") is not None:
        # a variable declared before the loop: only changes inside the loop body matter for the shape of this loop
        inbody = {x for x, _ in fn.walk(n["body"])} if n.get("body") is not None else set()
        muts = [j for j in muts if j in inbody]
    if muts:
        stepok = False
    if not stepok or n.get("c") is None:
        return out
    fs = ctx.cmp_fact(n["c"], True)
    if not fs:
        return out
    extra = []
    if len(fs) > 1:
        # `v < B && more` / `it != end && more`: the loop is still an index / iterator loop, but it may stop early
        def is_main(f_):
            if f_[0] in ("<", "<=") and (f_[1][:2] == var[:2] or (f_[1][0] in ("field", "mcall") and len(f_[1]) == 3 and f_[1][2][:2] == var[:2])):
                return True
            if f_[0] == "!=" and (f_[1][:2] == var[:2] or f_[2][:2] == var[:2]):
                return True
            return False
        mains = [f_ for f_ in fs if is_main(f_)]
        if len(mains) > 1 and all(f_[0] in ("<", "<=") for f_ in mains):
            mains = mains[:1]        # several upper bounds (v < A && v < B): the first is the bound, the others are stop conditions
        if len(mains) != 1:
            return out
        extra = [f_ for f_ in fs if f_ is not mains[0]]
        fs = mains
        out["extra"] = extra
        out["exits"] = list(out["exits"]) + [(n["c"], "stop-condition")]
    f = fs[0]

    def thin(k):
        # the loop variable itself, or a conversion / trivial getter applied to it (class-typed counters like BlockNumber)
        if k[:2] == var[:2]:
            return True
        if k[0] == "field" and len(k) == 3 and k[2][:2] == var[:2]:
            return True
        if k[0] == "mcall" and len(k) == 3 and "operator" in k[1] and k[2][:2] == var[:2]:
            return True
        return False
    if f[0] in ("<", "<=") and thin(f[1]):
        out.update(kind="index", rel=f[0], bound=_unconv(f[2]))
        return out
    if f[0] == "!=":
        a, b = f[1], f[2]
        other = b if a[:2] == var[:2] else (a if b[:2] == var[:2] else None)
        other = _unconv(other) if other is not None else None      # iterator -> const_iterator conversion around end()
        if other is not None and not (other[0] == "mcall" and other[1].split("::")[-1] in ("end", "cend")) and _unconv(out["start"]) == ("lit", 0):
            # counter loop written with != :  for (i = 0; i != B; ++i)  visits the same values as  i < B  (B is a size, never below 0)
            out.update(kind="index", rel="<", bound=_unconv(other), ne_form=True)
            return out
        if other is not None and other[0] == "mcall" and other[1].split("::")[-1] in ("end", "cend"):
            m = other[2]
            st = out["start"]
            if st[0] == "mcall" and st[1].split("::")[-1] in ("begin", "cbegin") and st[2] == m:
                out.update(kind="iter", bound=m)
                return out
    return out


def _while_shape(fn, ctx, L):
    """it = C.begin(); while (it != C.end()) { ...; ++it; }   (the iterator is declared before the loop and advanced once, at the end
    of the body, on every path)   ->  the same description as the for-loop form.  Anything else: kind 'other'."""
    n = fn.nodes[L]
    allx = loop_exits(fn, L)
    out = {"kind": "other", "node": L, "body": n.get("body"), "var": None, "exits": [e for e in allx if e[1] != "continue"],
           "continues": [e for e in allx if e[1] == "continue"]}
    if n.get("c") is None or n.get("body") is None:
        return out
    fs = ctx.cmp_fact(n["c"], True)
    if len(fs) == 1 and fs[0][0] == "!=" and not any(isinstance(x, tuple) and x[0] == "mcall" and x[1].split("::")[-1] in ("end", "cend") for x in fs[0][1:]):
        # counter written with != :  v = 0; while (v != B) { ...; ++v; }   (B a size): same values as v < B
        v_ = [x for x in fs[0][1:] if x[0] == "var" and ctx.decls.get(x[1], {}).get("init") is not None and _unconv(ctx.key(ctx.decls[x[1]]["init"])) == ("lit", 0) and ctx.mut.get(x[1])]
        if len(v_) == 1:
            other_ = [x for x in fs[0][1:] if x != v_[0]][0]
            fs = [("<", v_[0], other_)]
    if len(fs) == 1 and fs[0][0] in ("<", "<=") and fs[0][1][0] == "var":
        # counter form:  T v = s; while (v < B) { ...; ++v; }   (declared before the loop, advanced once, as the last statement of the
        # body, on every path; nothing else changes it)  ->  the same description as  for (v = s; v < B; ++v)
        var = fs[0][1]
        dv = ctx.decls.get(var[1], {})
        if dv.get("init") is not None:
            muts = [m for m in ctx.mut.get(var[1], []) if any(m == x for x, _ in fn.walk(n["body"]))]
            outside = [m for m in ctx.mut.get(var[1], []) if m not in muts and m != dv.get("declnode")]
            if len(muts) == 1 and not outside:
                mn = fn.nodes[muts[0]]
                isinc = (mn["k"] == "un" and mn["op"] == "++") or (mn["k"] == "bin" and mn["op"] == "+=" and ctx.key(mn["r"]) == ("lit", 1))
                body = fn.nodes[n["body"]]
                stm = [c for c in body.get("body", []) if c is not None and fn.nodes[c]["k"] != "null"] if body["k"] == "block" else [n["body"]]
                # the declaration must reach the loop unchanged: it is in the same statement list, before the loop
                if isinc and stm and stm[-1] == muts[0] and not out["continues"]:
                    out.update(kind="index", var=("var", var[1], var[2]), start=_unconv(ctx.key(dv["init"])), rel=fs[0][0], bound=_unconv(fs[0][2]), while_form=True)
                    return out
        return out
    if len(fs) != 1 or fs[0][0] != "!=":
        return out
    a, b = fs[0][1], fs[0][2]
    for var, other in ((a, b), (b, a)):
        other = _unconv(other)
        if var[0] == "var" and other[0] == "mcall" and other[1].split("::")[-1] in ("end", "cend"):
            dv = ctx.decls.get(var[1], {})
            if dv.get("init") is None:
                continue
            st = _unconv(ctx.key(dv["init"]))
            if not (st[0] == "mcall" and st[1].split("::")[-1] in ("begin", "cbegin") and st[2] == other[2]):
                continue
            muts = [m for m in ctx.mut.get(var[1], []) if any(m == x for x, _ in fn.walk(n["body"]))]
            outside = [m for m in ctx.mut.get(var[1], []) if m not in muts and m != dv.get("declnode")]
            if len(muts) != 1 or outside:
                continue
            mn = fn.nodes[muts[0]]
            isinc = (mn["k"] == "un" and mn["op"] == "++") or (mn["k"] == "call" and mn.get("ck") == "op" and mn.get("op") == "++")
            body = fn.nodes[n["body"]]
            stm = [c for c in body.get("body", []) if c is not None and fn.nodes[c]["k"] != "null"] if body["k"] == "block" else [n["body"]]
            if isinc and stm and stm[-1] == muts[0] and not out["continues"]:
                out.update(kind="iter", var=("var", var[1], var[2]), start=st, bound=other[2])
                return out
    return out


def _unconv(k):
    """strip single-argument conversion constructors / casts around a loop start or bound (class-typed counters)"""
    while isinstance(k, tuple) and ((k[0] == "ctor" and len(k) == 3) or k[0] == "cast"):
        k = k[2]
    return k


def loop_exits(fn, L):
    """break / continue / return statements that leave (an iteration of) loop L itself."""
    res = []
    n = fn.nodes[L]
    body = n.get("body")
    if body is None:
        return res

    def rec(i, depth_loop, depth_switch):
        m = fn.nodes[i]
        k = m["k"]
        if k.startswith("Other:Lambda"):
            return          # the body of a closure is another function: its return/break do not leave this loop
        if k == "return":
            res.append((i, "return"))
        elif k == "throw":
            pass
        elif k == "break":
            if depth_loop == 0 and depth_switch == 0:
                res.append((i, "break"))
        elif k == "continue":
            if depth_loop == 0:
                res.append((i, "continue"))
        dl = depth_loop + (1 if k in ("for", "while", "do", "forrange") else 0)
        ds = depth_switch + (1 if k == "switch" else 0)
        for c in fn.children(i):
            rec(c, dl, ds)
    rec(body, 0, 0)
    return res


def enclosing_loops(fn, node):
    """for/while/do statements enclosing node, innermost first (only when node is in their body)."""
    out = []
    prev = node
    for a in fn.ancestors(node):
        n = fn.nodes[a]
        if n["k"] in ("for", "while", "do", "forrange") and n.get("body") is not None:
            # is prev inside the body?
            if prev == n["body"] or any(j == prev for j, _ in fn.walk(n["body"])):
                out.append(a)
        prev = a
    return out


def stmts_of(fn, blocknode):
    n = fn.nodes[blocknode]
    if n["k"] == "block":
        return [c for c in n["body"] if c is not None and fn.nodes[c]["k"] != "null"]
    return [blocknode]


SIZE_METHODS = ("size", "rows", "outerSize", "innerSize", "cols")


def covers(shp, container, start0=True):
    """does loop `shp` visit every element of `container` (key), in order, without truncating exits?
    iterator form  it = C.begin(); it != C.end(); ++it      index form  i = 0; i < C.size(); ++i  (size may be hoisted: keys inline it)"""
    if shp is None or shp.get("exits"):
        return False
    if shp["kind"] in ("iter", "range"):
        return shp["bound"] == container
    if shp["kind"] == "index" and shp.get("rel") == "<" and (not start0 or _unconv(shp["start"]) == ("lit", 0)):
        b = _unconv(shp["bound"])
        return b[0] == "mcall" and len(b) == 3 and b[1].split("::")[-1] in SIZE_METHODS and b[2] == container
    return False


def element_keys(shp, container):
    """keys that denote the element visited in the current iteration of a loop for which covers(shp, container) holds"""
    v = shp["var"]
    if shp["kind"] == "range":
        return [v]
    if shp["kind"] == "iter":
        return [("un", "*", v), ("op", "*", v), ("op", "->", v)]
    out = [("op", "[]", container, v)]
    for m in ("std::vector::at", "std::vector::operator[]"):
        out.append(("mcall", m, container, v))
    return out


def is_element(key, shp, container):
    """key is the visited element, possibly behind pointer dereferences"""
    from .expr import key_subst
    ek = element_keys(shp, container)
    k = key
    for _ in range(4):
        if k in ek:
            return True
        if isinstance(k, tuple) and k[0] in ("un", "op") and k[1] in ("*", "->") and len(k) == 3:
            k = k[2]
        else:
            break
    return k in ek


ZERO_KEYS = (("lit", 0), ("ctor", "std::complex", ("lit", 0), ("lit", 0)), ("ctor", "std::complex", ("lit", 0)), ("ctor", "std::complex"))


def sum_over(fn, ctx, container):
    """Recognise the fold   acc = 0; for (every element e of container) acc += term(e); return acc
    in its loop forms (iterator loop, index loop with possibly hoisted size).
    Returns a dict:
      status 'ok'       loop=shape, acc=node of the +=, target=key of the accumulator, term=node of the added expression,
                        zero=bool (accumulator is a local initialised to 0), returned=bool
      status 'partial'  a recognised index/iterator loop adds terms but does not cover the container; why=text, node
      status 'unknown'  no such loop (std::accumulate with a lambda, helper function, ...); why=text"""
    from .facts import strip_targs
    cands = []
    for j, n in fn.walk(fn.body):
        if (n["k"] == "bin" and n["op"] == "+=") or (n["k"] == "call" and n.get("ck") == "op" and n.get("op") == "+=" and len(n["args"]) == 2):
            lhs = n["l"] if n["k"] == "bin" else n["args"][0]
            rhs = n["r"] if n["k"] == "bin" else n["args"][1]
            for L in enclosing_loops(fn, j):
                if fn.nodes[L]["k"] not in ("for", "forrange", "while"):
                    continue
                shp = loop_shape(fn, ctx, L)
                from .expr import key_contains
                mentions = any(isinstance(shp.get(x), tuple) and key_contains(shp[x], lambda y: y == container) for x in ("start", "bound"))
                if mentions:
                    cands.append((j, lhs, rhs, shp))
                    break
    if not cands:
        # an assignment where an accumulation is expected:  for (...) acc = term(e);  return acc;
        for j, n in fn.walk(fn.body):
            lhs_ = n["l"] if (n["k"] == "bin" and n["op"] == "=") else (n["args"][0] if (n["k"] == "call" and n.get("ck") == "op" and n.get("op") == "=" and len(n["args"]) == 2) else None)
            if lhs_ is not None and fn.nodes[lhs_]["k"] == "ref" and fn.nodes[lhs_].get("dk") == "local":
                n = dict(n, l=lhs_)
                for L in enclosing_loops(fn, j):
                    if fn.nodes[L]["k"] not in ("for", "forrange"):
                        continue
                    shp = loop_shape(fn, ctx, L)
                    from .expr import key_contains
                    if any(isinstance(shp.get(x), tuple) and key_contains(shp[x], lambda y: y == container) for x in ("start", "bound")):
                        tk = ctx.key(n["l"], inline=False)
                        if any(m["k"] == "return" and m.get("sub") is not None and _unconv(ctx.key(m["sub"], inline=False))[:2] == tk[:2] for _, m in fn.walk(fn.body)):
                            return {"status": "partial", "node": j, "loop": shp, "why": "the returned variable is overwritten in every iteration instead of accumulated: only the last element counts"}
        algo = [strip_targs(n.get("cname") or "") for j, n in fn.walk(fn.body) if n["k"] == "call" and strip_targs(n.get("cname") or "") in ("std::accumulate", "std::for_each", "std::inner_product", "std::transform")]
        return {"status": "unknown", "why": ("uses %s (callable argument not analysed)" % algo[0]) if algo else "no loop over the container that accumulates with +="}
    if len(cands) > 1:
        return {"status": "unknown", "why": "several accumulations over the container"}
    j, lhs, rhs, shp = cands[0]
    if not covers(shp, container):
        if shp["kind"] in ("index", "iter"):
            return {"status": "partial", "node": j, "loop": shp, "why": "the loop does not visit every element (start %s, bound %s, early exits %s)" % (shp.get("start"), shp.get("bound"), [e[1] for e in shp["exits"]])}
        return {"status": "unknown", "why": "loop form not recognised"}
    tk = ctx.key(lhs, inline=False)
    zero = False
    returned = False
    if tk[0] == "var":
        dv = ctx.decls.get(tk[1])
        zero = bool(dv and dv.get("init") is not None and _unconv(ctx.key(dv["init"])) in ZERO_KEYS)
        if dv and dv.get("init") is None:
            # declared, then assigned 0 before the loop
            zero = any(fn.nodes[m]["k"] == "bin" and fn.nodes[m]["op"] == "=" and ctx.key(fn.nodes[m]["r"]) in ZERO_KEYS and not enclosing_loops(fn, m) for m in ctx.mut.get(tk[1], []))
        returned = any(m["k"] == "return" and m.get("sub") is not None and _unconv(ctx.key(m["sub"], inline=False))[:2] == tk[:2] for _, m in fn.walk(fn.body))
    from .paths import every_iteration
    ev = every_iteration(fn, shp["node"], j)
    return {"status": "ok", "loop": shp, "acc": j, "target": tk, "term": rhs, "zero": zero, "returned": returned, "filtered": ev is False}


def no_early_exit(shp):
    """True iff the loop has no truncating exit.  A `continue` in the body is a per-item filter: a rule that does not analyse the
    filter condition cannot say whether every item is processed, so this raises AnalysisBroken (the instance becomes undecided)."""
    from .facts import AnalysisBroken
    if shp.get("exits"):
        return False
    if shp.get("continues"):
        raise AnalysisBroken("the loop body contains `continue` (a per-item filter this rule does not analyse)")
    return True
