"""Fact database produced by tool/pomfacts: loading, de-duplication, node helpers.

A *function* is a dict (see pomfacts.cc); `Fn` wraps it with helpers:
  fn.node(i)        -> node dict
  fn.s(i)           -> C-like rendering of node i (used in reports only, never matched)
  fn.walk(i)        -> pre-order generator of (id, node) under i
  fn.cfg            -> CFG helper (blocks, preds, dominators)
"""
import json
import os
import re
from collections import defaultdict


_strip_cache = {}


def strip_targs(name):
    """std::map<K, V>::find -> std::map::find (balanced angle brackets removed)."""
    if name is None:
        return None
    r = _strip_cache.get(name)
    if r is not None:
        return r
    out = []
    depth = 0
    i = 0
    n = len(name)
    OPS = ("operator<<=", "operator>>=", "operator<<", "operator>>", "operator<=", "operator>=", "operator->*",
           "operator->", "operator<", "operator>")
    while i < n:
        if name.startswith("operator", i) and depth == 0:
            tok = None
            for o in OPS:
                if name.startswith(o, i):
                    tok = o
                    break
            if tok:
                out.append(tok)
                i += len(tok)
                continue
        c = name[i]
        if c == "<":
            depth += 1
        elif c == ">" and depth > 0:
            depth -= 1
        elif depth == 0:
            out.append(c)
        i += 1
    r = "".join(out)
    _strip_cache[name] = r
    return r


class AnalysisBroken(Exception):
    """An anchor vanished / an idiom is not understood: exit 2, never a verdict."""


CHILD_KEYS_SINGLE = ("base", "obj", "l", "r", "sub", "idx", "c", "a", "b", "then", "else",
                     "init", "inc", "body", "range", "condvar", "calleeexpr", "size", "v_")
CHILD_KEYS_LIST = ("args", "items", "children")


class Fn:
    def __init__(self, d, tu, config):
        self.d = d
        self.tu = tu
        self.config = config
        self.qn = d["qn"]
        self.name = d["name"]
        self.mangled = d["mangled"]
        self.file = d["file"]
        self.line = d["line"]
        self.nodes = d["nodes"]
        self.body = d["body"]
        self.params = d["params"]
        self.rec = d.get("rec")
        self.kind = d.get("kind")
        self._cfg = None
        self._parent = None

    def __repr__(self):
        return "<Fn %s %s:%d>" % (self.qn, os.path.basename(self.file), self.line)

    @property
    def sig(self):
        return "%s(%s)" % (self.qn, ", ".join(p["tw"] for p in self.params))

    def loc(self, i=None):
        if i is None or i < 0:
            return "%s:%d" % (self.file, self.line)
        return "%s:%d" % (self.file, self.nodes[i].get("ln", self.line))

    def node(self, i):
        return self.nodes[i]

    def children(self, i):
        n = self.nodes[i]
        k = n["k"]
        out = []
        if k == "decl":
            for v in n["vars"]:
                if v.get("init") is not None:
                    out.append(v["init"])
            return out
        if k == "block":
            return [c for c in n["body"] if c is not None]
        if k == "forrange":
            r = [n["range"]]
            if n.get("body") is not None:
                r.append(n["body"])
            return r
        if k == "try":
            return [n["body"]] + [h["body"] for h in n["handlers"]]
        if k == "case":
            r = [n["v"]]
            if n.get("sub") is not None:
                r.append(n["sub"])
            return r
        if k == "for":
            return [n[x] for x in ("init", "c", "inc", "body") if n.get(x) is not None]
        if k == "if":
            return [n[x] for x in ("init", "condvar", "c", "then", "else") if n.get(x) is not None]
        if k == "call":
            r = []
            if n.get("obj") is not None:
                r.append(n["obj"])
            if n.get("calleeexpr") is not None:
                r.append(n["calleeexpr"])
            r.extend(n["args"])
            return r
        if k == "new":
            r = []
            if n.get("size") is not None:
                r.append(n["size"])
            if n.get("init") is not None:
                r.append(n["init"])
            return r
        for key in ("base", "obj", "l", "r", "sub", "idx", "c", "a", "b", "body", "calleeexpr"):
            v = n.get(key)
            if isinstance(v, int) and not isinstance(v, bool) and v >= 0:
                if key == "c" and k not in ("cond", "while", "do", "switch"):
                    continue
                out.append(v)
        for key in CHILD_KEYS_LIST:
            v = n.get(key)
            if isinstance(v, list):
                out.extend(x for x in v if isinstance(x, int))
        return out

    def walk(self, i):
        """pre-order over the skeleton tree below node i (inclusive)."""
        if i is None or i < 0:
            return
        stack = [i]
        while stack:
            j = stack.pop()
            yield j, self.nodes[j]
            ch = self.children(j)
            stack.extend(reversed(ch))

    def parent_map(self):
        if self._parent is None:
            pm = {}
            roots = [self.body] if self.body is not None and self.body >= 0 else []
            for ini in self.d.get("inits", []):
                roots.append(ini["e"])
            for r in roots:
                for j, _ in self.walk(r):
                    for c in self.children(j):
                        pm.setdefault(c, j)
            self._parent = pm
        return self._parent

    def ancestors(self, i):
        pm = self.parent_map()
        while i in pm:
            i = pm[i]
            yield i

    def find(self, pred, root=None):
        root = self.body if root is None else root
        return [j for j, n in self.walk(root) if pred(n)]

    def calls(self, root=None, cname=None, callee_re=None):
        out = []
        for j, n in self.walk(self.body if root is None else root):
            if n["k"] in ("call", "construct"):
                if cname is not None and n.get("cname") != cname:
                    continue
                if callee_re is not None and not re.search(callee_re, n.get("callee") or ""):
                    continue
                out.append(j)
        return out

    # ------------------------------------------------------------ rendering
    def s(self, i, depth=0):
        if i is None:
            return ""
        if isinstance(i, int) and i < 0:
            return "<null>"
        n = self.nodes[i]
        k = n["k"]
        s = self.s
        if depth > 40:
            return "..."
        d = depth + 1
        if k == "ref":
            return n["n"]
        if k == "member":
            b = self.nodes[n["base"]]
            if b["k"] == "this":
                return n["n"]
            return "%s%s%s" % (s(n["base"], d), "->" if n["arrow"] else ".", n["n"])
        if k == "this":
            return "this"
        if k == "lit":
            if n["lk"] == "str":
                return json.dumps(n["v"])
            if n["lk"] == "float":
                return n.get("sp", repr(n["v"]))
            if n["lk"] == "bool":
                return "true" if n["v"] else "false"
            return str(n["v"])
        if k == "call":
            args = [s(a, d) for a in n["args"]]
            if n["ck"] == "op":
                op = n["op"]
                if op == "()":
                    return "%s(%s)" % (args[0], ", ".join(args[1:]))
                if op == "[]":
                    return "%s[%s]" % (args[0], ", ".join(args[1:]))
                if len(args) == 2:
                    return "(%s %s %s)" % (args[0], op, args[1])
                if len(args) == 1:
                    return "(%s%s)" % (op, args[0])
                return "op%s(%s)" % (op, ", ".join(args))
            if n["ck"] == "method":
                short = (n.get("cname") or "?").split("::")[-1]
                ob = n.get("obj")
                if ob is not None and self.nodes[ob]["k"] == "this":
                    return "%s(%s)" % (short, ", ".join(args))
                return "%s%s%s(%s)" % (s(ob, d), "->" if n.get("arrow") else ".", short, ", ".join(args))
            nm = n.get("cname") or s(n.get("calleeexpr"), d)
            return "%s(%s)" % (nm, ", ".join(args))
        if k == "construct":
            t = n.get("crec") or n.get("t")
            return "%s(%s)" % (t, ", ".join(s(a, d) for a in n["args"]))
        if k == "bin":
            return "(%s %s %s)" % (s(n["l"], d), n["op"], s(n["r"], d))
        if k == "un":
            if n["postfix"]:
                return "%s%s" % (s(n["sub"], d), n["op"])
            return "%s%s" % (n["op"], s(n["sub"], d))
        if k == "index":
            return "%s[%s]" % (s(n["base"], d), s(n["idx"], d))
        if k == "cond":
            return "(%s ? %s : %s)" % (s(n["c"], d), s(n["a"], d), s(n["b"], d))
        if k == "cast":
            return "(%s)(%s)" % (n["t"], s(n["sub"], d))
        if k == "new":
            return "new %s%s" % (n["at"], ("{%s}" % s(n["init"], d)) if n.get("init") is not None else "")
        if k == "delete":
            return "delete %s" % s(n["sub"], d)
        if k == "throw":
            return "throw %s" % (s(n["sub"], d) if n.get("sub") is not None else "")
        if k == "initlist":
            return "{%s}" % ", ".join(s(a, d) for a in n["items"])
        if k in ("defarg", "definit", "stdinitlist"):
            return s(n["sub"], d)
        if k == "valueinit":
            return "%s()" % n.get("t", "")
        if k == "sizeof":
            return "sizeof(..)"
        if k == "decl":
            return "; ".join("%s %s%s" % (v["tw"], v["n"], (" = " + s(v["init"], d)) if v.get("init") is not None else "") for v in n["vars"])
        if k == "return":
            return "return %s" % (s(n["sub"], d) if n.get("sub") is not None else "")
        if k == "if":
            return "if (%s) ..." % s(n["c"], d)
        if k == "for":
            return "for (%s; %s; %s) ..." % (s(n.get("init"), d), s(n.get("c"), d), s(n.get("inc"), d))
        if k == "while":
            return "while (%s) ..." % s(n["c"], d)
        if k == "do":
            return "do ... while (%s)" % s(n["c"], d)
        if k == "block":
            return "{...}"
        if k in ("break", "continue", "null"):
            return k
        if k == "omp":
            return "#pragma %s" % n["dir"]
        return "<%s>" % k

    @property
    def cfg(self):
        if self._cfg is None:
            from . import cfg as _cfg
            if self.d.get("cfg") is None:
                raise AnalysisBroken("no CFG for %s" % self.qn)
            self._cfg = _cfg.CFG(self)
        return self._cfg


class DB:
    """All functions / records / globals of one configuration ('real' or 'complex')."""

    def __init__(self, config):
        self.config = config
        self.fns = {}            # mangled -> Fn  (library + header functions, de-duplicated)
        self.by_name = defaultdict(list)   # cname (no template args) -> [Fn]
        self.by_qn = defaultdict(list)     # qn (with template args) -> [Fn]
        self.records = {}
        self.globals = {}
        self.macro_files = set()
        self.tus = []
        self.dups = 0

    def add_tu(self, path, doc):
        self.tus.append(path)
        for f in doc["functions"]:
            m = f["mangled"]
            if m in self.fns:
                self.dups += 1
                continue
            fn = Fn(f, path, self.config)
            self.fns[m] = fn
            self.by_name[fn.name].append(fn)
            self.by_qn[fn.qn].append(fn)
        for r in doc["records"]:
            self.records.setdefault(r["qn"], r)
        for g in doc["globals"]:
            old = self.globals.get(g["qn"])
            if old is None or (old.get("init") is None and g.get("init") is not None):
                self.globals[g["qn"]] = g
        self.macro_files.update(doc.get("macro_files", []))

    # ---- look-up: always through resolved qualified names
    def fn(self, name, nparams=None, ptypes=None, const=None, allow_many=False):
        """Unique function with C++ qualified name `name` (template args optional)."""
        c = list(self.by_qn.get(name, [])) or list(self.by_name.get(name, []))
        if nparams is not None:
            c = [f for f in c if len(f.params) == nparams]
        if ptypes is not None:
            c = [f for f in c if all(re.search(p, q["t"]) for p, q in zip(ptypes, f.params)) and len(ptypes) == len(f.params)]
        if const is not None:
            c = [f for f in c if bool(f.d.get("const")) == const]
        if allow_many:
            return c
        if len(c) != 1:
            raise AnalysisBroken("anchor %s%s: expected exactly one definition, found %d (%s)" % (
                name, "" if nparams is None else "/%d" % nparams, len(c), ", ".join(f.sig for f in c)))
        return c[0]

    def fns_named(self, name):
        return list(self.by_name.get(name, []))

    def fns_matching(self, regex):
        r = re.compile(regex)
        return [f for f in self.fns.values() if r.search(f.qn)]

    def lib_fns(self):
        return [f for f in self.fns.values() if f.file.startswith("/repo/src/") or f.file.startswith("/repo/include/")
                or "/src/" in f.file or "/include/" in f.file]

    def global_fn(self, qn):
        """pseudo-function wrapping the initialiser of a namespace-scope / static variable."""
        g = self.globals.get(qn)
        if g is None:
            raise AnalysisBroken("global %s not found" % qn)
        d = {"qn": qn, "name": qn, "mangled": "global:" + qn, "file": g["file"], "line": g["line"], "nodes": g["nodes"],
             "body": g.get("init"), "params": [], "cfg": None, "kind": "global"}
        return Fn(d, "global", self.config)

    def global_const(self, qn):
        """evaluate a constant initialiser (nested brace lists of integer / float literals) to Python lists."""
        f = self.global_fn(qn)
        if f.body is None:
            raise AnalysisBroken("global %s has no initialiser in the analysed units" % qn)

        def ev(i):
            n = f.nodes[i]
            k = n["k"]
            if k == "lit":
                return n["v"]
            if k == "initlist":
                return [ev(x) for x in n["items"]]
            if k == "un" and n["op"] == "-":
                return -ev(n["sub"])
            if k == "un" and n["op"] == "+":
                return ev(n["sub"])
            if k == "cast":
                return ev(n["sub"])
            if k == "construct" and len(n["args"]) == 1:
                return ev(n["args"][0])
            if k in ("defarg", "definit", "stdinitlist"):
                return ev(n["sub"])
            raise AnalysisBroken("initialiser of %s is not a literal table (node %s)" % (qn, k))
        return ev(f.body)

    def callee_fn(self, node):
        m = node.get("cm")
        if m and m in self.fns:
            return self.fns[m]
        return None


def load_db(cache_dir, config, tests=True):
    db = DB(config)
    info = json.load(open(os.path.join(cache_dir, "done.json")))
    for rel, path in sorted(info["index"][config].items()):
        if not tests and not rel.startswith("src/"):
            continue
        with open(path) as fh:
            db.add_tu(rel, json.load(fh))
    return db
