"""Symbolic environment (reaching-definition inlining for re-assigned locals and parameters).

env_at(fn, ctx) -> at[(block, idx)] = dict decl-id -> key : the value of each *re-assigned* local / parameter
expressed over values that are stable in the function (initial parameter values, fields, single-assignment
locals), valid on every path reaching that position (entries that differ between paths are dropped)."""
from .expr import ASSIGN_OPS, key_subst
from .facts import strip_targs

VALUE_ASSIGN_CLASSES = ("std::complex",)


def _subst(key, env):
    def f(k):
        if k[0] in ("var", "param") and k[1] in env:
            return env[k[1]]
        if k[0] == "field" and len(k) == 3 and k[2] == ("this",) and ("f", k[1]) in env:
            return env[("f", k[1])]
        if k[0] == "op" and len(k) == 4 and k[1] == "[]" and k[2][0] == "field" and k[2][2] == ("this",) and ("f", k[2][1], k[3]) in env:
            return env[("f", k[2][1], k[3])]
        return None
    return key_subst(key, f)


def resolve_index(key):
    """fold  initlist[...][lit i]  ->  element i"""
    def f(k):
        if k[0] == "op" and len(k) == 4 and k[1] == "[]" and k[2][0] == "initlist" and k[3][0] == "lit" and isinstance(k[3][1], int):
            i = k[3][1]
            if 0 <= i < len(k[2]) - 1:
                return k[2][1 + i]
        return None
    return key_subst(key, f)


def _transfer_fns(fn, ctx):
    mutnodes = {}
    for d, ns in ctx.mut.items():
        for j in ns:
            mutnodes.setdefault(j, set()).add(d)
    tracked = {d for d, ns in ctx.mut.items() if ns}
    for d in ctx.decls:
        if ctx.init_mutated_vars(d):
            tracked.add(d)
    declnodes = {}
    for d, v in ctx.decls.items():
        if "declnode" in v and d in tracked:
            declnodes.setdefault(v["declnode"], []).append((d, v))

    def freeze(env):
        return tuple(sorted(env.items(), key=lambda kv: repr(kv[0])))

    def transfer(st, b, i, e):
        nid = e[2] if isinstance(e, tuple) else e
        n = fn.nodes[nid]
        env = dict(st)
        changed = False
        if nid in declnodes:
            for d, v in declnodes[nid]:
                env.pop(d, None)
                if v.get("init") is not None:
                    try:
                        env[d] = resolve_index(_subst(ctx.key(v["init"]), env))
                    except Exception:
                        pass
                changed = True
        k = n["k"]
        tgt = rhs = op = None
        if k == "bin" and n["op"] in ASSIGN_OPS:
            tgt, rhs, op = n["l"], n["r"], n["op"]
        elif k == "call" and n.get("ck") == "op" and n.get("op") in ASSIGN_OPS and len(n["args"]) == 2 and \
                strip_targs(n.get("cname") or "").rsplit("::", 1)[0] in VALUE_ASSIGN_CLASSES:
            tgt, rhs, op = n["args"][0], n["args"][1], n["op"]
        if tgt is not None:
            tn = fn.nodes[tgt]
            # assignments to a field of *this (F = e, F op= e) and to a constant-indexed element of an array field (F[c] = e)
            fkey = None
            try:
                tk = ctx.key(tgt, inline=False)
            except Exception:
                tk = None
            if tk is not None and tk[0] == "field" and len(tk) == 3 and tk[2] == ("this",):
                fkey = ("f", tk[1])
                cur0 = tk
            elif tk is not None and tk[0] == "op" and len(tk) == 4 and tk[1] == "[]" and tk[2][0] == "field" and tk[2][2] == ("this",):
                ik = resolve_index(_subst(tk[3], env))
                fkey = ("f", tk[2][1], ik)
                cur0 = ("op", "[]", tk[2], ik)
                if ik[0] != "lit":
                    # F[variable] = ... : forget everything known about F's elements, remember this one symbolically
                    for kk in [x for x in env if isinstance(x, tuple) and len(x) == 3 and x[0] == "f" and x[1] == tk[2][1]]:
                        env.pop(kk, None)
            if fkey is not None:
                try:
                    rk = resolve_index(_subst(ctx.key(rhs), env))
                    if op == "=":
                        env[fkey] = rk
                    else:
                        env[fkey] = ("op", op[:-1], env.get(fkey, cur0), rk)
                except Exception:
                    env.pop(fkey, None)
                return freeze(env)
            if tn["k"] == "ref" and tn["dk"] in ("local", "param") and tn["d"] in tracked:
                d = tn["d"]
                try:
                    rk = resolve_index(_subst(ctx.key(rhs), env))
                    if op == "=":
                        env[d] = rk
                    else:
                        cur = env.get(d, ("param" if tn["dk"] == "param" else "var", d, tn["n"]))
                        if tn["dk"] != "param" and d not in env:
                            env.pop(d, None)
                        else:
                            env[d] = ("op", op[:-1], cur, rk)
                except Exception:
                    env.pop(d, None)
                return freeze(env)
        if nid in mutnodes and nid not in declnodes:
            for d in mutnodes[nid]:
                # ++ / -- / unknown mutation
                if k == "un" and n["op"] in ("++", "--") and d in env:
                    env[d] = ("op", "+" if n["op"] == "++" else "-", env[d], ("lit", 1))
                else:
                    env.pop(d, None)
            changed = True
        return freeze(env) if (changed or tgt is not None) else st

    return transfer, freeze


def env_at(fn, ctx):
    cfg = fn.cfg
    transfer, freeze = _transfer_fns(fn, ctx)

    def meet(a, b):
        da, db_ = dict(a), dict(b)
        return freeze({k: v for k, v in da.items() if db_.get(k) == v})

    IN, at = cfg.forward(freeze({}), transfer, None, meet)
    return {p: dict(st) for p, st in at.items()}


def env_along(fn, ctx, path):
    """the same environment, but along ONE block path (no joins): at[(block, idx)] = values before that element.
    For rules that decide a function path by path (each path with its own branch facts)."""
    transfer, freeze = _transfer_fns(fn, ctx)
    st = freeze({})
    at = {}
    for b in path:
        blk = fn.cfg.blocks[b]
        for i, e in enumerate(blk.elems):
            at[(b, i)] = dict(st)
            st = transfer(st, b, i, e)
        at[(b, len(blk.elems))] = dict(st)
    return at


def gated_value(fn, ctx, d, at_node):
    """value of local d at `at_node` when it is  `T v = a; if (c) v = b;`  (one conditional overwrite before the use, both in the
    statement list that contains the use): returns ("cond", c, b, a), or None when the shape is different."""
    dv = ctx.decls.get(d)
    if not dv or dv.get("init") is None or "declnode" not in dv:
        return None
    muts = [m for m in ctx.mut.get(d, []) if m != dv["declnode"]]
    if len(muts) != 1:
        return None
    m = muts[0]
    mn = fn.nodes[m]
    if mn["k"] == "bin" and mn["op"] == "=":
        rhs = mn["r"]
    elif mn["k"] == "call" and mn.get("ck") == "op" and mn.get("op") == "=" and len(mn["args"]) == 2:
        rhs = mn["args"][1]
    else:
        return None
    # the assignment is the whole then-branch (possibly in a block) of an if without else
    pm = fn.parent_map()
    par = pm.get(m)
    if par is not None and fn.nodes[par]["k"] == "block" and len([x for x in fn.nodes[par]["body"] if x is not None and fn.nodes[x]["k"] != "null"]) == 1:
        par2 = pm.get(par)
        child = par
    else:
        par2, child = par, m
    if par2 is None or fn.nodes[par2]["k"] != "if" or fn.nodes[par2].get("then") != child or fn.nodes[par2].get("else") is not None:
        return None
    IF = par2
    # decl, the if and the use are in straight-line order: decl dominates if, if dominates use, nothing else writes d
    pd, pi, pu = fn.cfg.pos1(dv["declnode"]), fn.cfg.pos1(fn.nodes[IF]["c"]), fn.cfg.pos1(at_node)
    if None in (pd, pi, pu) or not (fn.cfg.dominates(pd, pi) and fn.cfg.dominates(pi, pu)):
        return None
    if any(x == at_node for x, _ in fn.walk(IF)):
        return None
    return ("cond", ctx.key(fn.nodes[IF]["c"]), ctx.key(rhs), ctx.key(dv["init"]))


def value_key(fn, ctx, envs, node, at_node=None):
    """key of expression `node` with re-assigned variables replaced by their value at the position of `at_node`."""
    p = fn.cfg.pos1(at_node if at_node is not None else node)
    env = envs.get(p, {}) if p is not None else {}
    k = resolve_index(_subst(ctx.key(node), env))
    # locals that are overwritten under one condition before the use: v = a; if (c) v = b;  ->  c ? b : a
    def gate(x):
        if x[0] == "var" and x[1] not in env and ctx.mut.get(x[1]):
            return gated_value(fn, ctx, x[1], at_node if at_node is not None else node)
        return None
    return key_subst(k, gate)
