"""Effect analysis: which fields of *this (and which non-local objects) a function may write,
transitively through the library call graph (engine `effects`)."""
from .expr import ASSIGN_OPS, STD_ACCESSORS
from .facts import strip_targs

PURE_STD_PREFIX = ("std::", "boost::", "Eigen::", "__gnu_cxx::", "abs", "exp", "sqrt", "conj", "real", "imag")


class Effects:
    def __init__(self, db):
        self.db = db
        self._memo = {}

    def lvalue_root(self, fn, i):
        """Classify the object an lvalue expression designates:
           ('this', field_qn) | ('local', decl) | ('param', decl, through_ptr_or_ref) | ('global', qn) |
           ('deref', root) for writes through a pointer / reference stored in a field | ('unknown',)"""
        through = False
        depth = 0
        while i is not None and i >= 0 and depth < 50:
            depth += 1
            n = fn.nodes[i]
            k = n["k"]
            if k == "ref":
                if n["dk"] in ("local", "staticlocal"):
                    if n["dk"] == "staticlocal":
                        return ("global", "static:" + n["n"])
                    return ("local", n["d"], through)
                if n["dk"] == "param":
                    return ("param", n["d"], through)
                if n["dk"] == "global":
                    return ("global", n.get("q", n["n"]))
                return ("unknown",)
            if k == "this":
                return ("thisobj",)
            if k == "member":
                b = fn.nodes[n["base"]]
                if b["k"] == "this":
                    if through:
                        return ("deref", strip_targs(n["q"]))
                    return ("this", strip_targs(n["q"]))
                if n["arrow"]:
                    through = True
                i = n["base"]
                continue
            if k == "index":
                i = n["base"]
                continue
            if k == "un" and n["op"] == "*":
                through = True
                i = n["sub"]
                continue
            if k == "cast":
                i = n["sub"]
                continue
            if k == "call" and n["ck"] == "op" and n.get("op") in ("[]", "()", "*", "->"):
                if n.get("op") in ("*", "->"):
                    # smart pointer / iterator dereference: pointee, not the holder
                    through = True
                i = n["args"][0]
                continue
            if k == "call" and n["ck"] == "method":
                short = strip_targs(n.get("cname") or "").split("::")[-1]
                if short in ("get", "begin", "end", "rbegin", "data", "front", "back", "at", "find", "second", "first"):
                    if short in ("get",):
                        through = True
                    i = n.get("obj")
                    continue
                return ("unknown",)
            if k == "cond":
                return ("unknown",)
            return ("unknown",)
        return ("unknown",)

    def direct(self, fn):
        """list of (kind, target, node) writes performed directly in fn."""
        out = []
        if fn.body is None or fn.body < 0:
            return out
        roots = [fn.body] + [i["e"] for i in fn.d.get("inits", [])]
        for r in roots:
            for j, n in fn.walk(r):
                k = n["k"]
                if k == "bin" and n["op"] in ASSIGN_OPS:
                    out.append((self.lvalue_root(fn, n["l"]), j))
                elif k == "un" and n["op"] in ("++", "--"):
                    out.append((self.lvalue_root(fn, n["sub"]), j))
                elif k in ("call", "construct"):
                    cname = n.get("cname") or ""
                    short = strip_targs(cname).split("::")[-1]
                    args = list(n["args"])
                    cp = list(n.get("cparams") or [])
                    if k == "call" and n["ck"] == "op" and n.get("ismember"):
                        if not n.get("cconst", False) and not (short in STD_ACCESSORS):
                            out.append((self.lvalue_root(fn, args[0]), j))
                        args = args[1:]
                    elif k == "call" and n["ck"] == "method" and n.get("obj") is not None:
                        if not n.get("cconst", False) and not n.get("cstatic", False) and not (cname.startswith("std::") and short in STD_ACCESSORS):
                            tgt = self.lvalue_root(fn, n["obj"])
                            if n.get("arrow") and tgt[0] == "this":
                                tgt = ("deref", tgt[1])
                            elif n.get("arrow") and tgt[0] in ("local", "param"):
                                tgt = (tgt[0], tgt[1], True)
                            cf = self.db.callee_fn(n)
                            if tgt[0] == "thisobj":
                                pass     # handled transitively below
                            else:
                                out.append((tgt, j))
                    for ai, a in enumerate(args):
                        kind = cp[ai] if ai < len(cp) else None
                        if kind == "ref":
                            out.append((self.lvalue_root(fn, a), j))
                        elif kind == "ptr":
                            an = fn.nodes[a]
                            if an["k"] == "un" and an["op"] == "&":
                                out.append((self.lvalue_root(fn, an["sub"]), j))
                            else:
                                t = self.lvalue_root(fn, a)
                                if t[0] == "this":
                                    out.append((("deref", t[1]), j))
                                elif t[0] in ("local", "param"):
                                    out.append(((t[0], t[1], True), j))
                elif k == "cast" and n.get("cls") == "CXXConstCastExpr":
                    out.append((("constcast",), j))
        return out

    def this_writes(self, fn, _stack=None):
        """set of field names (qualified, template args stripped) of *this that fn may write,
        including through calls to other member functions on this; 'deref:<field>' for pointee writes."""
        m = fn.mangled
        if m in self._memo:
            return self._memo[m]
        _stack = _stack or set()
        if m in _stack:
            return set()
        _stack.add(m)
        res = set()
        for tgt, j in self.direct(fn):
            if tgt[0] == "this":
                res.add(tgt[1])
            elif tgt[0] == "deref":
                res.add("deref:" + tgt[1])
        for j, n in fn.walk(fn.body) if fn.body is not None and fn.body >= 0 else []:
            if n["k"] == "call" and n["ck"] == "method" and n.get("obj") is not None and fn.nodes[n["obj"]]["k"] == "this":
                cf = self.db.callee_fn(n)
                if cf is not None:
                    res |= self.this_writes(cf, _stack)
        _stack.discard(m)
        self._memo[m] = res
        return res

    def nonlocal_writes(self, fn, _stack=None, depth=0):
        """writes to anything but locals: list of (description, fn, node). Used for OpenMP purity."""
        key = ("nl", fn.mangled)
        if key in self._memo:
            return self._memo[key]
        _stack = _stack or set()
        if fn.mangled in _stack or depth > 12:
            return []
        _stack.add(fn.mangled)
        res = []
        for tgt, j in self.direct(fn):
            if tgt[0] == "local" and not tgt[2]:
                continue
            if tgt[0] == "local" and tgt[2]:
                res.append(("write through local pointer/reference %s" % fn.s(j)[:60], fn, j))
            elif tgt[0] == "param":
                pt = [p["t"] for p in fn.params if p["d"] == tgt[1]]
                byval = pt and not (pt[0].rstrip().endswith("&") or pt[0].rstrip().endswith("*"))
                if byval and not tgt[2]:
                    continue          # assignment to a by-value parameter is local
                res.append(("write to/through parameter in %s" % fn.s(j)[:60], fn, j))
            else:
                res.append(("%s %s" % (tgt[0], tgt[1] if len(tgt) > 1 else ""), fn, j))
        for j, n in fn.walk(fn.body) if fn.body is not None and fn.body >= 0 else []:
            if n["k"] in ("call", "construct"):
                cf = self.db.callee_fn(n)
                if cf is not None and cf.mangled != fn.mangled:
                    res.extend(self.nonlocal_writes(cf, _stack, depth + 1))
        _stack.discard(fn.mangled)
        self._memo[key] = res
        return res
